// Command factgen regenerates PdModel/Generated/*.lean from the Go sources under -repo.
// It is deliberately tiny: named integer constants (evaluated with a mini constant folder)
// and a few syntactic facts.  The theorems refer to these definitions, so a changed constant
// changes what the Lean kernel has to accept.
package main

import (
	"encoding/json"
	"flag"
	"fmt"
	"go/ast"
	"go/parser"
	"go/token"
	"math/big"
	"os"
	"path/filepath"
	"sort"
	"strings"
)

// Fact is one entry of /verif/facts/<Area>.json.
//
//	{"kind":"const", "file":"server/id/id.go", "name":"allocStep", "lean":"allocStep"}
//	{"kind":"locked_func", "file":"server/id/id.go", "func":"allocatorImpl.Alloc", "mutex":"alloc.mu", "lean":"allocLocked"}
//	{"kind":"call_order", "file":"...", "func":"T.f", "first":"saveX", "then":"publishY", "lean":"persistBeforePublish"}
//
// Further kinds are registered from kind_*.go files through Register.
type Fact struct {
	Kind  string `json:"kind"`
	File  string `json:"file"`
	Name  string `json:"name"`
	Func  string `json:"func"`
	Mutex string `json:"mutex"`
	First string `json:"first"`
	Then  string `json:"then"`
	Lean  string `json:"lean"`
	Args  map[string]string `json:"args"`
}

// Kind computes the Lean definition text (without the leading doc comment) of a fact.
type Kind func(repo string, f Fact) (string, error)

var kinds = map[string]Kind{}

// Register adds a fact kind.
func Register(name string, k Kind) { kinds[name] = k }

var constCache = map[string]pkgConsts{}

func init() {
	Register("const", func(repo string, f Fact) (string, error) {
		dir := filepath.Dir(f.File)
		env, ok := constCache[dir]
		if !ok {
			var err error
			env, err = collect(filepath.Join(repo, f.File))
			if err != nil {
				return "", err
			}
			constCache[dir] = env
		}
		e, ok := env[f.Name]
		if !ok {
			return "", fmt.Errorf("constant %s not found in %s", f.Name, dir)
		}
		v, err := eval(e, env, 0)
		if err != nil {
			return "", err
		}
		if v.Sign() < 0 {
			return fmt.Sprintf("def %s : Int := %s", f.Lean, v.String()), nil
		}
		return fmt.Sprintf("def %s : Nat := %s", f.Lean, v.String()), nil
	})
}

var timeUnits = map[string]int64{
	"Nanosecond": 1, "Microsecond": 1e3, "Millisecond": 1e6, "Second": 1e9, "Minute": 60e9, "Hour": 3600e9,
}

type pkgConsts map[string]ast.Expr

func collect(file string) (pkgConsts, error) {
	fset := token.NewFileSet()
	dir := filepath.Dir(file)
	pkgs, err := parser.ParseDir(fset, dir, func(fi os.FileInfo) bool {
		return !strings.HasSuffix(fi.Name(), "_test.go")
	}, 0)
	if err != nil {
		return nil, err
	}
	out := pkgConsts{}
	for _, p := range pkgs {
		for _, f := range p.Files {
			for _, d := range f.Decls {
				gd, ok := d.(*ast.GenDecl)
				if !ok || (gd.Tok != token.CONST && gd.Tok != token.VAR) {
					continue
				}
				for _, s := range gd.Specs {
					vs := s.(*ast.ValueSpec)
					for i, n := range vs.Names {
						if i < len(vs.Values) {
							out[n.Name] = vs.Values[i]
						}
					}
				}
			}
		}
	}
	return out, nil
}

func eval(e ast.Expr, env pkgConsts, depth int) (*big.Int, error) {
	if depth > 20 {
		return nil, fmt.Errorf("too deep")
	}
	switch x := e.(type) {
	case *ast.BasicLit:
		if x.Kind == token.INT {
			v, ok := new(big.Int).SetString(strings.ReplaceAll(x.Value, "_", ""), 0)
			if !ok {
				return nil, fmt.Errorf("bad int %s", x.Value)
			}
			return v, nil
		}
		if x.Kind == token.FLOAT {
			f, ok := new(big.Float).SetString(x.Value)
			if ok && f.IsInt() {
				v, _ := f.Int(nil)
				return v, nil
			}
		}
		return nil, fmt.Errorf("unsupported literal %s", x.Value)
	case *ast.ParenExpr:
		return eval(x.X, env, depth+1)
	case *ast.Ident:
		if v, ok := env[x.Name]; ok {
			return eval(v, env, depth+1)
		}
		return nil, fmt.Errorf("unknown ident %s", x.Name)
	case *ast.SelectorExpr:
		if id, ok := x.X.(*ast.Ident); ok && id.Name == "time" {
			if u, ok := timeUnits[x.Sel.Name]; ok {
				return big.NewInt(u), nil
			}
		}
		return nil, fmt.Errorf("unsupported selector")
	case *ast.CallExpr: // type conversion T(x)
		if len(x.Args) == 1 {
			return eval(x.Args[0], env, depth+1)
		}
		return nil, fmt.Errorf("unsupported call")
	case *ast.BinaryExpr:
		a, err := eval(x.X, env, depth+1)
		if err != nil {
			return nil, err
		}
		b, err := eval(x.Y, env, depth+1)
		if err != nil {
			return nil, err
		}
		r := new(big.Int)
		switch x.Op {
		case token.ADD:
			return r.Add(a, b), nil
		case token.SUB:
			return r.Sub(a, b), nil
		case token.MUL:
			return r.Mul(a, b), nil
		case token.QUO:
			return r.Quo(a, b), nil
		case token.SHL:
			return r.Lsh(a, uint(b.Uint64())), nil
		case token.SHR:
			return r.Rsh(a, uint(b.Uint64())), nil
		}
		return nil, fmt.Errorf("unsupported op %s", x.Op)
	}
	return nil, fmt.Errorf("unsupported expr %T", e)
}


func main() {
	repo := flag.String("repo", "/repo", "repository root")
	facts := flag.String("facts", "/verif/facts", "directory of <Area>.json fact lists")
	out := flag.String("out", "", "directory for Generated/<Area>.lean (empty: print to stdout)")
	flag.Parse()
	files, _ := filepath.Glob(filepath.Join(*facts, "*.json"))
	sort.Strings(files)
	failed := false
	for _, fp := range files {
		area := strings.TrimSuffix(filepath.Base(fp), ".json")
		b, err := os.ReadFile(fp)
		if err != nil {
			fmt.Fprintln(os.Stderr, "factgen:", err)
			failed = true
			continue
		}
		var fs []Fact
		if err := json.Unmarshal(b, &fs); err != nil {
			fmt.Fprintf(os.Stderr, "factgen: %s: %v\n", fp, err)
			failed = true
			continue
		}
		var sb strings.Builder
		sb.WriteString("-- GENERATED by /verif/harness/cmd/factgen from the Go sources; do not edit.\n")
		sb.WriteString("namespace PdModel.Generated." + area + "\n")
		for _, f := range fs {
			k, ok := kinds[f.Kind]
			if !ok {
				fmt.Fprintf(os.Stderr, "FACT-ERROR %s: unknown fact kind %q\n", area, f.Kind)
				failed = true
				continue
			}
			def, err := k(*repo, f)
			if err != nil {
				fmt.Fprintf(os.Stderr, "FACT-ERROR %s: %s %s %s%s: %v\n", area, f.Kind, f.File, f.Name, f.Func, err)
				failed = true
				continue
			}
			fmt.Fprintf(&sb, "/-- %s %s %s%s -/\n%s\n", f.Kind, f.File, f.Name, f.Func, def)
		}
		sb.WriteString("end PdModel.Generated." + area + "\n")
		if *out == "" {
			fmt.Print(sb.String())
			continue
		}
		p := filepath.Join(*out, area+".lean")
		old, _ := os.ReadFile(p)
		if string(old) != sb.String() {
			if err := os.WriteFile(p, []byte(sb.String()), 0o644); err != nil {
				fmt.Fprintln(os.Stderr, "factgen:", err)
				failed = true
			}
		}
	}
	if failed {
		os.Exit(3)
	}
}
