package main

import (
	"fmt"
	"go/ast"
	"go/token"
	"strconv"
	"strings"
)

func init() {
	// gcsp_string_const: a named string constant of the package of File.
	//   {"kind":"gcsp_string_const", "file":"server/core/storage.go", "name":"gcWorkerServiceSafePointID", "lean":"gcWorkerId"}
	Register("gcsp_string_const", func(repo string, f Fact) (string, error) {
		env, err := collect(repo + "/" + f.File)
		if err != nil {
			return "", err
		}
		e, ok := env[f.Name]
		if !ok {
			return "", fmt.Errorf("constant %s not found", f.Name)
		}
		lit, ok := e.(*ast.BasicLit)
		if !ok || lit.Kind != token.STRING {
			return "", fmt.Errorf("constant %s is not a string literal", f.Name)
		}
		s, err := strconv.Unquote(lit.Value)
		if err != nil {
			return "", err
		}
		return fmt.Sprintf("def %s : String := %s", f.Lean, strconv.Quote(s)), nil
	})

	// gcsp_locked_calls: in Func, the top-level statement `<mutex>.Lock()` is immediately followed by
	// `defer <mutex>.Unlock()`, there is no other Unlock of that mutex in the function, and every call
	// whose callee text contains one of Args["calls"] (comma separated; each must occur) comes after the
	// defer: all of them execute inside one critical section.
	//   {"kind":"gcsp_locked_calls", "file":"server/grpc_service.go", "func":"Server.UpdateGCSafePoint",
	//    "mutex":"s.gcSafePointLock", "args":{"calls":"LoadGCSafePoint,SaveGCSafePoint"}, "lean":"updateIsAtomic"}
	// With Args["mutex_any"]="1" any mutex expression is accepted (the first Lock/defer-Unlock pair found).
	Register("gcsp_locked_calls", func(repo string, f Fact) (string, error) {
		fset, fd, err := findFunc(repo, f.File, f.Func)
		if err != nil {
			return "", err
		}
		calls := strings.Split(f.Args["calls"], ",")
		ok := false
		if fd.Body != nil {
			for i := 0; i+1 < len(fd.Body.List) && !ok; i++ {
				s0, ok0 := fd.Body.List[i].(*ast.ExprStmt)
				s1, ok1 := fd.Body.List[i+1].(*ast.DeferStmt)
				if !ok0 || !ok1 {
					continue
				}
				a := exprString(fset, s0.X)
				b := exprString(fset, s1.Call)
				mu := f.Mutex
				if f.Args["mutex_any"] == "1" && strings.HasSuffix(a, ".Lock()") {
					mu = strings.TrimSuffix(a, ".Lock()")
				}
				if mu == "" || a != mu+".Lock()" || b != mu+".Unlock()" {
					continue
				}
				deferPos := s1.End()
				good := true
				seen := map[string]bool{}
				ast.Inspect(fd, func(n ast.Node) bool {
					c, isCall := n.(*ast.CallExpr)
					if !isCall {
						return true
					}
					txt := exprString(fset, c.Fun)
					if txt == mu+".Unlock" && c.Pos() != s1.Call.Pos() {
						good = false
					}
					for _, want := range calls {
						if want != "" && strings.Contains(txt, want) {
							seen[want] = true
							if c.Pos() < deferPos {
								good = false
							}
						}
					}
					return true
				})
				for _, want := range calls {
					if want != "" && !seen[want] {
						good = false
					}
				}
				ok = good
			}
		}
		return fmt.Sprintf("def %s : Bool := %v", f.Lean, ok), nil
	})
}
