package main

import (
	"fmt"
	"go/ast"
	"go/token"
	"strings"
)

func init() {
	// locked_calls: in the body of Func there is a statement `<Mutex>.Lock()` and, later in the same block, a
	// statement `<Mutex>.Unlock()`; between the two, calls whose printed callee contains each of the
	// comma-separated substrings of Args["calls"] occur in that order; every `<Mutex>.Unlock()` nested deeper
	// between the two is directly followed by a `return` (an early exit, not a window).
	// The fact says: those calls form ONE critical section.
	Register("locked_calls", func(repo string, f Fact) (string, error) {
		fset, fd, err := findFunc(repo, f.File, f.Func)
		if err != nil {
			return "", err
		}
		lock, unlock := f.Mutex+".Lock()", f.Mutex+".Unlock()"
		isCall := func(s ast.Stmt, want string) bool {
			es, ok := s.(*ast.ExprStmt)
			return ok && exprString(fset, es.X) == want
		}
		ok := false
		if fd.Body != nil {
			list := fd.Body.List
			iL, iU := -1, -1
			for i, s := range list {
				if iL < 0 && isCall(s, lock) {
					iL = i
				} else if iL >= 0 && iU < 0 && isCall(s, unlock) {
					iU = i
				}
			}
			if iL >= 0 && iU > iL {
				var callPos []token.Pos
				var callName []string
				nestedOK := true
				for _, s := range list[iL+1 : iU] {
					ast.Inspect(s, func(n ast.Node) bool {
						switch x := n.(type) {
						case *ast.CallExpr:
							callPos = append(callPos, x.Pos())
							callName = append(callName, exprString(fset, x.Fun))
						case *ast.BlockStmt:
							for k, st := range x.List {
								if isCall(st, unlock) {
									if k+1 >= len(x.List) {
										nestedOK = false
									} else if _, isRet := x.List[k+1].(*ast.ReturnStmt); !isRet {
										nestedOK = false
									}
								}
							}
						}
						return true
					})
				}
				want := strings.Split(f.Args["calls"], ",")
				j := 0
				for _, name := range callName {
					if j < len(want) && strings.Contains(name, strings.TrimSpace(want[j])) {
						j++
					}
				}
				ok = nestedOK && j == len(want)
			}
		}
		return fmt.Sprintf("def %s : Bool := %v", f.Lean, ok), nil
	})
}
