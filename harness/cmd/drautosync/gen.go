package main

import (
	"fmt"
	"sort"
	"strings"

	"github.com/tikv/pd/server/core"

	"verifharness/internal/rng"
	"verifharness/internal/trace"
)

// gen produces op sequences, executing them as it goes.  It peeks at the implementation
// (current state id, cached regions) only to make the inputs relevant; a replay uses the op
// lines verbatim.
type gen struct {
	w      *world
	t      *trace.W
	r      *rng.R
	nextID uint64
	nextRg uint64
	stats  map[string]int

	malformed bool
	big       bool
	nStores   int
	stores    map[int]gstore
	curCfg    string // last `<mode> <lk> <p> <d> <pr> <dr> <wa>` accepted
}

func (g *gen) run(op string) string {
	before := g.w.peek()
	g.w.run(g.t, op)
	after := g.w.peek()
	kind := strings.Fields(op)[0]
	if before != after {
		b, a := strings.Split(before, ":")[0], strings.Split(after, ":")[0]
		g.stats["transition "+kind+" "+b+"->"+a]++
	}
	if kind == "tick" {
		g.stats["tick-in "+strings.Split(before, ":")[0]]++
		if strings.HasPrefix(before, "sync_recover") || strings.HasPrefix(after, "sync_recover") || strings.Contains(strings.Join(g.w.events, ";"), "sync_recover") {
			nq, extra := 0, 0
			for _, e := range g.w.events {
				if e[0] == 'Q' {
					nq++
					if strings.Contains(e, fmt.Sprintf(":%d:", g.sampleSize())) && nq > 1 {
						extra++
					}
				}
			}
			g.stats[fmt.Sprintf("recover-tick scans=%s", bucket(nq))]++
			g.stats[fmt.Sprintf("recover-tick regions=%s", bucket(g.w.mc.GetRegionCount()))]++
			if strings.HasPrefix(after, "sync:") {
				g.stats[fmt.Sprintf("declared-sync regions=%s", bucket(g.w.mc.GetRegionCount()))]++
			}
		}
	}
	if kind == "region" {
		f := strings.Fields(op)
		cur := g.curID()
		switch sid := atou(f[5]); {
		case sid == cur:
			g.stats["report id=current"]++
		case sid < cur:
			g.stats["report id=stale"]++
		default:
			g.stats["report id=future"]++
		}
		g.stats["report state="+f[4]]++
	}
	for _, e := range g.w.events {
		switch {
		case e == "Ax":
			g.stats["fault alloc"]++
		case e[0] == 'F' && strings.Contains(e, ":0@"):
			g.stats["fault file"]++
		case e[0] == 'S' && strings.Contains(e, ":0@"):
			g.stats["fault save"]++
		case e[0] == 'Q':
			g.stats["scan"]++
		}
	}
	return after
}

func bucket(n int) string {
	switch {
	case n <= 3:
		return fmt.Sprint(n)
	case n <= 8:
		return "4-8"
	case n <= 64:
		return "9-64"
	case n <= 1024:
		return "65-1024"
	}
	return ">1024"
}

func (g *gen) sampleSize() int {
	_, m := replicationSizes()
	return m
}

// sw renders the inputs of one state switch: a fresh id (the allocator never repeats one) and faults.
func (g *gen) sw() string {
	g.nextID++
	if g.r.Bool(1, 5) {
		g.nextID += uint64(g.r.Range(1, 40))
	}
	id := fmt.Sprint(g.nextID)
	if g.r.Bool(1, 25) {
		id = "x"
	}
	file := 1
	if g.r.Bool(1, 10) {
		file = 0
	}
	save := g.r.Pick(88, 8, 4)
	return fmt.Sprintf("%s %d %d", id, file, save)
}

func (g *gen) cfg(mode string) string {
	lk, p, d := 1, 1, 2
	pr := []int{2, 2, 2, 2, 2, 1, 3, 1, 3, 0}[g.r.Intn(10)]
	dr := []int{1, 1, 1, 1, 1, 2, 1, 2, 0, 3}[g.r.Intn(10)]
	if g.malformed && g.r.Bool(1, 4) {
		p, d = g.r.Intn(4), g.r.Intn(4)
		pr, dr = g.r.Intn(5), g.r.Intn(5)
	}
	wa := 0
	if g.r.Bool(1, 3) {
		wa = 1
	}
	return fmt.Sprintf("%s %d %d %d %d %d %d", mode, lk, p, d, pr, dr, wa)
}

func (g *gen) mode() string {
	if g.r.Bool(9, 10) {
		return "dr"
	}
	return "maj"
}

func (g *gen) curID() uint64 {
	if g.w.mgr == nil {
		return 0
	}
	_, id := g.w.mgr.VerifDrAutoSyncPeek()
	return id
}

func (g *gen) state() string { return strings.Split(g.w.peek(), ":")[0] }

func (g *gen) sid() uint64 {
	cur := g.curID()
	switch g.r.Pick(72, 10, 5, 5, 8) {
	case 0:
		return cur
	case 1:
		if cur > 0 {
			return cur - 1
		}
	case 2:
		return uint64(g.r.Intn(int(cur) + 1))
	case 3:
		return cur + uint64(g.r.Range(1, 3)) // an id the cluster has not reached yet
	}
	return 0
}

func (g *gen) rst() string { return []string{"i", "m", "u"}[g.r.Pick(78, 14, 8)] }

func (g *gen) regions() []*core.RegionInfo { return g.w.mc.Regions.ScanRange(nil, nil, 0) }

func (g *gen) regionOp() string {
	rs := g.regions()
	if len(rs) == 0 || g.r.Bool(1, 25) {
		g.nextRg++
		start := uint64(g.r.Intn(60))
		end := start + uint64(g.r.Range(1, 30))
		if g.r.Bool(1, 3) {
			end = 0
		}
		if g.r.Bool(1, 3) {
			start = 0
		}
		return fmt.Sprintf("region %d %d %d %s %d", g.nextRg, start, end, g.rst(), g.sid())
	}
	cur := g.curID()
	pick := func() *core.RegionInfo {
		if g.r.Bool(3, 5) { // prefer a region that still blocks the recovery
			var blocking []*core.RegionInfo
			for _, r := range rs {
				st := r.GetReplicationStatus()
				if st.GetStateId() != cur || st.GetState().String() != "INTEGRITY_OVER_LABEL" {
					blocking = append(blocking, r)
					if len(blocking) >= 8 {
						break
					}
				}
			}
			if len(blocking) > 0 {
				return blocking[g.r.Intn(len(blocking))]
			}
		}
		return rs[g.r.Intn(len(rs))]
	}
	r := pick()
	s, e := keyNum(r.GetStartKey()), keyNum(r.GetEndKey())
	switch g.r.Pick(56, 14, 10, 12, 8) {
	case 0: // a heartbeat with a new status
		return fmt.Sprintf("region %d %d %d %s %d", r.GetID(), s, e, g.rst(), g.sid())
	case 1: // split: the left part keeps the id
		if e == 0 || e > s+1 {
			width := uint64(9)
			if e != 0 {
				width = e - s - 1
			}
			mid := s + 1 + uint64(g.r.Intn(int(width)))
			if g.r.Bool(1, 2) {
				return fmt.Sprintf("region %d %d %d %s %d", r.GetID(), s, mid, g.rst(), g.sid())
			}
			g.nextRg++
			return fmt.Sprintf("region %d %d %d %s %d", g.nextRg, mid, e, g.rst(), g.sid())
		}
	case 2: // merge with the next one
		for i := range rs {
			if rs[i].GetID() == r.GetID() && i+1 < len(rs) {
				return fmt.Sprintf("region %d %d %d %s %d", r.GetID(), s, keyNum(rs[i+1].GetEndKey()), g.rst(), g.sid())
			}
		}
	case 3: // some range, overlapping whatever is there
		last := keyNum(rs[len(rs)-1].GetStartKey())
		start := uint64(g.r.Intn(int(last) + 12))
		end := start + uint64(g.r.Range(1, 25))
		if g.r.Bool(1, 12) {
			end = 0
		}
		id := r.GetID()
		if g.r.Bool(1, 2) {
			g.nextRg++
			id = g.nextRg
		}
		return fmt.Sprintf("region %d %d %d %s %d", id, start, end, g.rst(), g.sid())
	case 4:
		return fmt.Sprintf("rmregion %d", r.GetID())
	}
	return fmt.Sprintf("region %d %d %d %s %d", r.GetID(), s, e, "i", cur)
}

// gstore: tomb is the meta state of the store: 0 Up, 1 Tombstone, 2 Offline (crossed with liveness `down`).
type gstore struct{ label, down, tomb int }

func (g *gen) storeOp() string {
	id := g.r.Range(1, g.nStores)
	cur := g.stores[id]
	label, down, tomb := cur.label, g.r.Intn(2), 0
	st := g.state()
	switch {
	case (st == "sync" || st == "sync_recover") && g.r.Bool(3, 5):
		// fail a store, preferably of the dr data centre (the usual way into async)
		var cand []int
		for i := 1; i <= g.nStores; i++ {
			if g.stores[i].down == 0 && (g.stores[i].label == 2 || g.r.Bool(1, 4)) {
				cand = append(cand, i)
			}
		}
		if len(cand) > 0 {
			id = cand[g.r.Intn(len(cand))]
			label, down = g.stores[id].label, 1
		}
	case st == "async" && g.r.Bool(7, 10):
		var cand []int
		for i := 1; i <= g.nStores; i++ {
			if g.stores[i].down == 1 {
				cand = append(cand, i)
			}
		}
		if len(cand) > 0 {
			id = cand[g.r.Intn(len(cand))]
			label, down = g.stores[id].label, 0
			if g.r.Bool(1, 3) {
				// `store delete` on a dead store: Offline, still down, still holds its replicas
				g.stats["store offline while down"]++
				g.stores[id] = gstore{label, 1, 2}
				return fmt.Sprintf("store %d %d 1 2", id, label)
			}
		}
	}
	if g.r.Bool(1, 14) {
		label = g.r.Intn(4)
	}
	tomb = []int{0, 2, 1}[g.r.Pick(80, 13, 7)]
	g.stats[fmt.Sprintf("store meta=%d down=%d", tomb, down)]++
	g.stores[id] = gstore{label, down, tomb}
	return fmt.Sprintf("store %d %d %d %d", id, label, down, tomb)
}

// setStores issues store ops until every store satisfying pick has the wanted down flag.
func (g *gen) setStores(pick func(gstore) bool, down int) {
	for i := 1; i <= g.nStores; i++ {
		st := g.stores[i]
		if pick(st) && (st.down != down || st.tomb == 1) {
			meta := 0
			if st.tomb == 2 && g.r.Bool(2, 3) {
				meta = 2 // an Offline store stays Offline
			}
			g.stores[i] = gstore{st.label, down, meta}
			g.run(fmt.Sprintf("store %d %d %d %d", i, st.label, down, meta))
		}
	}
}

// steer makes the next tick likely to leave the current state.
func (g *gen) steer() {
	switch g.state() {
	case "sync":
		g.setStores(func(s gstore) bool { return s.label == 2 }, 1)
		if g.r.Bool(1, 2) {
			g.setStores(func(s gstore) bool { return s.label == 1 }, 0)
		}
	case "async":
		g.setStores(func(s gstore) bool { return true }, 0)
	case "sync_recover":
		switch g.r.Pick(3, 4, 2) {
		case 0:
			g.run(g.fillOp())
		case 1: // let the lagging regions report, a few at a time
			cur := g.curID()
			n := 0
			for _, r := range g.regions() {
				st := r.GetReplicationStatus()
				if st.GetStateId() != cur || st.GetState().String() != "INTEGRITY_OVER_LABEL" {
					g.run(fmt.Sprintf("region %d %d %d i %d", r.GetID(), keyNum(r.GetStartKey()), keyNum(r.GetEndKey()), cur))
					if n++; n >= 6 || g.r.Bool(1, 4) {
						break
					}
				}
			}
		case 2: // close the gaps
			rs := g.regions()
			prev := uint64(0)
			cur := g.curID()
			for i, r := range rs {
				s := keyNum(r.GetStartKey())
				if s != prev && (i > 0 || s > 0) {
					g.nextRg++
					g.run(fmt.Sprintf("region %d %d %d i %d", g.nextRg, prev, s, cur))
				}
				prev = keyNum(r.GetEndKey())
				if prev == 0 {
					break
				}
			}
			if prev != 0 || len(rs) == 0 {
				g.nextRg++
				g.run(fmt.Sprintf("region %d %d 0 i %d", g.nextRg, prev, cur))
			}
		}
	}
	if g.r.Bool(1, 3) {
		g.run("inittime 1")
	}
	g.run("tick " + g.sw() + " " + g.sw())
}

func (g *gen) fillOp() string {
	n := g.r.Range(0, 26)
	if g.big {
		n = []int{g.r.Range(1000, 3000), g.r.Range(500, 1100), 1024, 1025, 2048, 1536, 2049}[g.r.Intn(7)]
	}
	st, sid := "i", g.curID()
	if g.r.Bool(1, 6) {
		st, sid = g.rst(), g.sid()
	}
	g.nextRg = uint64(n)
	return fmt.Sprintf("fill %d %s %d", n, st, sid)
}

func (g *gen) setrecOp() string {
	rs := g.regions()
	key := uint64(g.r.Range(1, 40))
	if len(rs) > 1 {
		key = keyNum(rs[1+g.r.Intn(len(rs)-1)].GetStartKey())
	}
	if key == 0 {
		key = 5
	}
	count := []int{1, 7, 1<<24 - 1, 1 << 24, 1<<24 + 1, 1 << 25, 1<<26 - 3, 1 << 26}[g.r.Intn(8)]
	srec := g.r.Intn(3)
	stot := srec + g.r.Intn(3)
	total := count + g.r.Intn(3)
	if g.r.Bool(1, 4) {
		total = g.r.Intn(100)
	}
	return fmt.Sprintf("setrec %d %d %d %d %d", key, count, srec, stot, total)
}

func (g *gen) sequence(maxOps int, big, malformed bool) {
	g.big, g.malformed = big, malformed
	g.nextID = uint64(g.r.Intn(5))
	g.nextRg = 0
	g.run("reset")
	g.stats["sequences"]++
	if big {
		g.stats["sequences big"]++
	} else {
		b := []int{1, 2, 3, 4, 7, 16}[g.r.Intn(6)]
		m := []int{1, 2, 3, 5, 9}[g.r.Intn(5)]
		g.run(fmt.Sprintf("sizes %d %d", b, m))
	}
	g.nStores = g.r.Range(2, 6)
	g.stores = map[int]gstore{}
	for i := 1; i <= g.nStores; i++ {
		label := 1
		if i > (g.nStores+1)/2 {
			label = 2
		}
		g.stores[i] = gstore{label: label}
		g.run(fmt.Sprintf("store %d %d 0 0", i, label))
	}
	if malformed && g.r.Bool(1, 3) {
		g.run("tick 1 1 0 2 1 0") // no manager yet
	}
	g.run("new " + g.cfg(g.mode()) + " " + g.sw())
	if g.r.Bool(3, 4) {
		g.run("inittime 1")
	}
	if g.r.Bool(3, 4) {
		g.run(g.fillOp())
	}
	ops := g.r.Range(8, maxOps)
	if big {
		ops = g.r.Range(6, 14)
	}
	for k := 0; k < ops; k++ {
		st := g.state()
		wTick, wStore, wRegion, wFill := 30, 16, 14, 3
		if st == "sync_recover" {
			wTick, wStore, wRegion, wFill = 30, 8, 36, 6
		}
		if big {
			wRegion, wFill = wRegion/2, wFill*3
		}
		switch g.r.Pick(wTick, wStore, wRegion, wFill, 4, 2, 3, 1, 1, 14) {
		case 9:
			g.steer()
		case 0:
			g.run("tick " + g.sw() + " " + g.sw())
		case 1:
			g.run(g.storeOp())
		case 2:
			g.run(g.regionOp())
		case 3:
			g.run(g.fillOp())
			if st == "sync_recover" && g.r.Bool(1, 2) { // a few regions lag behind
				for j, nr := 0, g.r.Range(1, 3); j < nr; j++ {
					rs := g.regions()
					if len(rs) == 0 {
						break
					}
					r := rs[g.r.Intn(len(rs))]
					g.run(fmt.Sprintf("region %d %d %d %s %d", r.GetID(), keyNum(r.GetStartKey()), keyNum(r.GetEndKey()), g.rst(), g.sid()))
				}
			}
		case 4:
			g.run("cfg " + g.cfg(g.mode()) + " " + g.sw())
		case 5:
			g.run("new " + g.cfg(g.mode()) + " " + g.sw())
		case 6:
			if g.r.Bool(1, 2) {
				g.run(fmt.Sprintf("inittime %d", g.r.Intn(2)))
			} else {
				g.run(fmt.Sprintf("member %d %d", g.r.Range(1, 3), g.r.Intn(2)))
			}
		case 7:
			if st == "sync_recover" {
				g.run(g.setrecOp())
				g.run("tick " + g.sw() + " " + g.sw())
			}
		case 8:
			if !big {
				g.run(fmt.Sprintf("sizes %d %d", g.r.Range(1, 6), g.r.Range(1, 6)))
			}
		}
		if malformed && g.r.Bool(1, 6) {
			g.stats["malformed extra"]++
			switch g.r.Intn(6) {
			case 0: // a store without any label / with a foreign label
				g.run(fmt.Sprintf("store %d %d %d 0", g.r.Range(1, g.nStores+2), []int{0, 3}[g.r.Intn(2)], g.r.Intn(2)))
			case 1: // a report that claims an id far in the future
				g.nextRg++
				g.run(fmt.Sprintf("region %d %d 0 i %d", g.nextRg, g.r.Intn(40), g.curID()+uint64(g.r.Range(1, 500))))
			case 2: // the same report twice
				op := g.regionOp()
				g.run(op)
				g.run(op)
			case 3: // one region over everything, never in sync
				g.nextRg++
				g.run(fmt.Sprintf("region %d 0 0 %s %d", g.nextRg, []string{"u", "m"}[g.r.Intn(2)], g.sid()))
			case 4: // an empty cluster
				g.run("fill 0 i 0")
			case 5: // remove something that is not there
				g.run(fmt.Sprintf("rmregion %d", g.nextRg+uint64(g.r.Range(1, 9))))
			}
		}
	}
}

func (g *gen) printStats() {
	keys := make([]string, 0, len(g.stats))
	for k := range g.stats {
		keys = append(keys, k)
	}
	sort.Strings(keys)
	for _, k := range keys {
		g.t.Comment(fmt.Sprintf("dist %s = %d", k, g.stats[k]))
	}
}
