// Command drautosync drives the real server/replication ModeManager (DR auto-sync state machine)
// on a mockcluster with a fake file replicator and a fault-injecting storage, and writes the
// `<op> => <observation>` trace judged by the Lean model (property C19).
package main

import (
	"context"
	"encoding/json"
	"errors"
	"flag"
	"fmt"
	"math"
	"strconv"
	"strings"
	"time"

	"github.com/pingcap/kvproto/pkg/metapb"
	pb "github.com/pingcap/kvproto/pkg/replication_modepb"
	"github.com/tikv/pd/pkg/mock/mockcluster"
	"github.com/tikv/pd/pkg/typeutil"
	"github.com/tikv/pd/server/config"
	"github.com/tikv/pd/server/core"
	"github.com/tikv/pd/server/kv"
	"github.com/tikv/pd/server/replication"

	_ "verifharness/internal/quiet"
	"verifharness/internal/rng"
	"verifharness/internal/trace"
)

const (
	longTimeout = 1000 * time.Hour // WaitStoreTimeout, WaitAsyncTimeout when set
	drKey       = "dr-auto-sync"
)

var errInjected = errors.New("injected failure")

// switchIn holds the inputs of one drSwitchTo* call.
type switchIn struct {
	id     uint64
	noID   bool // AllocID fails
	fileOk bool
	save   int // 0 ok, 1 error (nothing written), 2 error (written)
}

// world is everything one sequence runs on.
type world struct {
	ctx     context.Context
	mc      *mockcluster.Cluster
	cl      *cluster
	storage *core.Storage
	fkv     *faultKV
	rep     *replicator
	mgr     *replication.ModeManager
	cfg     config.ReplicationModeConfig

	ins    []switchIn // inputs of the switches of the current op
	nAlloc int
	events []string
}

// cluster wraps the mock cluster: AllocID is an input of the op, scans are recorded.
type cluster struct {
	*mockcluster.Cluster
	w *world
}

func (c *cluster) cur() *switchIn {
	if c.w.nAlloc == 0 || c.w.nAlloc > len(c.w.ins) {
		return nil
	}
	return &c.w.ins[c.w.nAlloc-1]
}

func (c *cluster) AllocID() (uint64, error) {
	c.w.nAlloc++
	in := c.cur()
	if in == nil || in.noID {
		c.w.events = append(c.w.events, "Ax")
		return 0, errInjected
	}
	c.w.events = append(c.w.events, fmt.Sprintf("A%d", in.id))
	return in.id, nil
}

func (c *cluster) ScanRegions(startKey, endKey []byte, limit int) []*core.RegionInfo {
	res := c.Cluster.ScanRegions(startKey, endKey, limit)
	c.w.events = append(c.w.events, fmt.Sprintf("Q%d:%d:%d", keyNum(startKey), limit, len(res)))
	return res
}

func (c *cluster) GetRegionCount() int {
	n := c.Cluster.GetRegionCount()
	c.w.events = append(c.w.events, fmt.Sprintf("C%d", n))
	return n
}

// replicator is the FileReplicater handed to the manager.
type replicator struct{ w *world }

type persisted struct {
	State   string `json:"state"`
	StateID uint64 `json:"state_id"`
}

func (r *replicator) ReplicateFileToAllMembers(ctx context.Context, name string, data []byte) error {
	w := r.w
	in := w.cl.cur()
	ok := in == nil || in.fileOk
	st, id := parseStatus(string(data))
	w.events = append(w.events, fmt.Sprintf("F%s:%d:%s@%s", st, id, b01(ok), w.peek()))
	if name != "DR_STATE" {
		w.events = append(w.events, "F?name="+name)
	}
	if !ok {
		return errInjected
	}
	return nil
}

// faultKV injects failures into the writes of the replication status.
type faultKV struct {
	kv.Base
	w *world
}

func (f *faultKV) Save(key, value string) error {
	w := f.w
	if !strings.HasPrefix(key, "replication_mode/") {
		return f.Base.Save(key, value)
	}
	in := w.cl.cur()
	mode := 0
	if in != nil {
		mode = in.save
	}
	st, id := parseStatus(value)
	w.events = append(w.events, fmt.Sprintf("S%s:%d:%s@%s", st, id, b01(mode == 0), w.peek()))
	if key != "replication_mode/"+drKey {
		w.events = append(w.events, "S?key="+key)
	}
	if mode == 1 {
		return errInjected
	}
	err := f.Base.Save(key, value)
	if err != nil {
		panic(err)
	}
	if mode >= 2 {
		return errInjected
	}
	return nil
}

func parseStatus(js string) (string, uint64) {
	var p persisted
	if err := json.Unmarshal([]byte(js), &p); err != nil {
		return "badjson", 0
	}
	if p.State == "" {
		p.State = "none"
	}
	return p.State, p.StateID
}

func b01(b bool) string {
	if b {
		return "1"
	}
	return "0"
}

func (w *world) peek() string {
	if w.mgr == nil {
		return "none:0"
	}
	st, id := w.mgr.VerifDrAutoSyncPeek()
	if st == "" {
		st = "none"
	}
	return fmt.Sprintf("%s:%d", st, id)
}

func keyBytes(n uint64) []byte {
	if n == 0 {
		return nil
	}
	return []byte(fmt.Sprintf("k%012d", n))
}

func keyNum(k []byte) uint64 {
	if len(k) == 0 {
		return 0
	}
	n, err := strconv.ParseUint(string(k[1:]), 10, 64)
	if err != nil {
		panic("bad key " + string(k))
	}
	return n
}

func labelKeyName(k int) string {
	if k == 1 {
		return "zone"
	}
	return fmt.Sprintf("key%d", k)
}

func labelValueName(v int) string {
	if v == 0 {
		return ""
	}
	return fmt.Sprintf("dc%d", v)
}

func (w *world) reset() {
	w.ctx = context.Background()
	w.mc = mockcluster.NewCluster(w.ctx, config.NewTestOptions())
	w.cl = &cluster{Cluster: w.mc, w: w}
	w.storage = core.NewStorage(kv.NewMemoryKV())
	w.fkv = &faultKV{Base: w.storage.Base, w: w}
	w.storage.Base = w.fkv
	w.rep = &replicator{w: w}
	w.mgr = nil
	replication.VerifDrAutoSyncScanSizes(defaultBatch, defaultSample)
}

func replicationSizes() (int, int) { return replication.VerifDrAutoSyncScanSizes(0, 0) }

var defaultBatch, defaultSample = replication.VerifDrAutoSyncScanSizes(0, 0)

func atoi(s string) int { n, _ := strconv.Atoi(s); return n }

func atou(s string) uint64 { n, _ := strconv.ParseUint(s, 10, 64); return n }

// parseCfg reads `<mode> <labelKey> <primary> <dr> <pRep> <dRep> <waitAsync>`.
func parseCfg(f []string) config.ReplicationModeConfig {
	c := config.ReplicationModeConfig{ReplicationMode: "majority"}
	if f[0] == "dr" {
		c.ReplicationMode = drKey
	}
	c.DRAutoSync = config.DRAutoSyncReplicationConfig{
		LabelKey:         labelKeyName(atoi(f[1])),
		Primary:          labelValueName(atoi(f[2])),
		DR:               labelValueName(atoi(f[3])),
		PrimaryReplicas:  atoi(f[4]),
		DRReplicas:       atoi(f[5]),
		WaitStoreTimeout: typeutil.Duration{Duration: longTimeout},
		WaitSyncTimeout:  typeutil.Duration{Duration: time.Minute},
	}
	if f[6] != "0" {
		c.DRAutoSync.WaitAsyncTimeout = typeutil.Duration{Duration: longTimeout}
	}
	return c
}

// parseSwitch reads `<id|x> <fileOk> <save>`.
func parseSwitch(f []string) switchIn {
	in := switchIn{fileOk: f[1] != "0", save: atoi(f[2])}
	if f[0] == "x" {
		in.noID = true
	} else {
		in.id = atou(f[0])
	}
	return in
}

func rstate(s string) pb.RegionReplicationState {
	switch s {
	case "m":
		return pb.RegionReplicationState_SIMPLE_MAJORITY
	case "i":
		return pb.RegionReplicationState_INTEGRITY_OVER_LABEL
	}
	return pb.RegionReplicationState_UNKNOWN
}

func (w *world) putRegion(id, start, end uint64, st string, sid uint64) {
	peer := &metapb.Peer{Id: id*10 + 1, StoreId: 1}
	meta := &metapb.Region{Id: id, StartKey: keyBytes(start), EndKey: keyBytes(end), Peers: []*metapb.Peer{peer}}
	r := core.NewRegionInfo(meta, peer, core.SetReplicationStatus(&pb.RegionReplicationStatus{State: rstate(st), StateId: sid}))
	w.mc.PutRegion(r)
}

func (w *world) exec(op string) string {
	f := strings.Fields(op)
	w.ins, w.nAlloc, w.events = nil, 0, nil
	const bad = "bad-op"
	if len(f) == 0 {
		return bad
	}
	switch {
	case f[0] == "reset" && len(f) == 1:
		w.reset()
		return "ok"
	case f[0] == "new" && len(f) == 11:
		cfg := parseCfg(f[1:8])
		w.ins = []switchIn{parseSwitch(f[8:11])}
		w.mgr = nil
		m, err := replication.NewReplicationModeManager(cfg, w.storage, w.cl, w.rep)
		if err != nil {
			return "err"
		}
		w.mgr, w.cfg = m, cfg
		return "ok"
	case f[0] == "cfg" && len(f) == 11:
		if w.mgr == nil {
			return "nomgr"
		}
		cfg := parseCfg(f[1:8])
		w.ins = []switchIn{parseSwitch(f[8:11])}
		if err := w.mgr.UpdateConfig(cfg); err != nil {
			return "err"
		}
		w.cfg = cfg
		return "ok"
	case f[0] == "tick" && len(f) == 7:
		if w.mgr == nil {
			return "nomgr"
		}
		w.ins = []switchIn{parseSwitch(f[1:4]), parseSwitch(f[4:7])}
		w.mgr.VerifDrAutoSyncTick()
		return "ok"
	case f[0] == "store" && len(f) == 5:
		meta := &metapb.Store{Id: atou(f[1])}
		if v := atoi(f[2]); v != 0 {
			meta.Labels = []*metapb.StoreLabel{{Key: "zone", Value: labelValueName(v)}}
		}
		switch f[4] { // meta state: 0 Up, 1 Tombstone, 2 Offline
		case "1":
			meta.State = metapb.StoreState_Tombstone
		case "2":
			meta.State = metapb.StoreState_Offline
		}
		hb := time.Now()
		if f[3] != "0" {
			hb = time.Unix(1, 0)
		}
		w.mc.PutStore(core.NewStoreInfo(meta, core.SetLastHeartbeatTS(hb)))
		return "ok"
	case f[0] == "region" && len(f) == 6:
		w.putRegion(atou(f[1]), atou(f[2]), atou(f[3]), f[4], atou(f[5]))
		return "ok"
	case f[0] == "fill" && len(f) == 4:
		n := atou(f[1])
		w.mc.Regions = core.NewRegionsInfo()
		for i := uint64(1); i <= n; i++ {
			end := i * 10
			if i == n {
				end = 0
			}
			w.putRegion(i, (i-1)*10, end, f[2], atou(f[3]))
		}
		return "ok"
	case f[0] == "rmregion" && len(f) == 2:
		if r := w.mc.GetRegion(atou(f[1])); r != nil {
			w.mc.RemoveRegion(r)
		}
		return "ok"
	case f[0] == "inittime" && len(f) == 2:
		if w.mgr == nil {
			return "nomgr"
		}
		t := time.Now()
		if f[1] != "0" {
			t = t.Add(-2 * longTimeout)
		}
		w.mgr.VerifDrAutoSyncSetInitTime(t)
		return "ok"
	case f[0] == "member" && len(f) == 3:
		if w.mgr == nil {
			return "nomgr"
		}
		if f[2] != "0" {
			w.mgr.VerifDrAutoSyncSetMemberWaitAsyncTime(atou(f[1]), time.Now().Add(-2*longTimeout))
		} else {
			w.mgr.UpdateMemberWaitAsyncTime(atou(f[1]))
		}
		return "ok"
	case f[0] == "sizes" && len(f) == 3:
		replication.VerifDrAutoSyncScanSizes(atoi(f[1]), atoi(f[2]))
		return "ok"
	case f[0] == "setrec" && len(f) == 6:
		if w.mgr == nil {
			return "nomgr"
		}
		w.mgr.VerifDrAutoSyncSetRecover(keyBytes(atou(f[1])), atoi(f[2]), atoi(f[3]), atoi(f[4]), atoi(f[5]))
		return "ok"
	}
	return bad
}

// observe renders everything observable after an op.
func (w *world) observe(ret string) string {
	var sb strings.Builder
	sb.WriteString(ret)
	if w.mgr == nil {
		sb.WriteString(" pub=- mem=none:0")
	} else {
		p := w.mgr.GetReplicationStatus()
		h := w.mgr.GetReplicationStatusHTTP()
		switch p.GetMode() {
		case pb.ReplicationMode_MAJORITY:
			sb.WriteString(" pub=maj")
			if h.Mode != "majority" || p.GetDrAutoSync() != nil {
				sb.WriteString("!http-mode=" + h.Mode)
			}
		case pb.ReplicationMode_DR_AUTO_SYNC:
			d := p.GetDrAutoSync()
			st := strings.ToLower(d.GetState().String())
			fmt.Fprintf(&sb, " pub=dr:%s:%d:%s", st, d.GetStateId(), d.GetLabelKey())
			if h.Mode != drKey || h.DrAutoSync.State != st || h.DrAutoSync.StateID != d.GetStateId() || h.DrAutoSync.LabelKey != d.GetLabelKey() {
				fmt.Fprintf(&sb, "!http=%s:%s:%d", h.Mode, h.DrAutoSync.State, h.DrAutoSync.StateID)
			}
		default:
			fmt.Fprintf(&sb, " pub=?%d", p.GetMode())
		}
		sb.WriteString(" mem=" + w.peek())
	}
	var st persisted
	ok, err := w.storage.LoadReplicationStatus(drKey, &st)
	switch {
	case err != nil:
		sb.WriteString(" st=err")
	case !ok:
		sb.WriteString(" st=none")
	default:
		fmt.Fprintf(&sb, " st=%s:%d", st.State, st.StateID)
	}
	if w.mgr != nil {
		k, c, sr, stt, tot := w.mgr.VerifDrAutoSyncRecover()
		fmt.Fprintf(&sb, " rec=%d,%d,%d,%d,%d", keyNum(k), c, sr, stt, tot)
		// the HTTP view hides the counters outside dr-auto-sync mode; they are still reported when present
		h := w.mgr.GetReplicationStatusHTTP()
		fmt.Fprintf(&sb, " http=%d,%d,%d", h.DrAutoSync.TotalRegions, h.DrAutoSync.SyncedRegions, math.Float32bits(h.DrAutoSync.RecoverProgress))
	} else {
		sb.WriteString(" rec=0,0,0,0,0 http=0,0,0")
	}
	b, m := replication.VerifDrAutoSyncScanSizes(0, 0)
	fmt.Fprintf(&sb, " sz=%d,%d", b, m)
	sb.WriteString(" ev=" + strings.Join(w.events, ";"))
	return sb.String()
}

func (w *world) run(t *trace.W, op string) {
	ret := w.exec(op)
	t.Line(op, w.observe(ret))
}

func main() {
	out := flag.String("out", "-", "trace file")
	replay := flag.String("replay", "", "ops file to replay instead of generating")
	n := flag.Int("n", 60, "number of generated sequences")
	maxOps := flag.Int("len", 60, "max ops per sequence")
	big := flag.Int("big", 1, "every n-th sequence uses the real scan sizes and up to 3000 regions (0 = never)")
	stream := flag.Uint64("stream", 0, "PRNG stream")
	flag.Parse()

	w := &world{}
	w.reset()
	t := trace.Create(*out)
	defer t.Close()
	if *replay != "" {
		for _, op := range trace.ReadOps(*replay) {
			w.run(t, op)
		}
		return
	}
	r := rng.FromEnv(*stream)
	g := &gen{w: w, t: t, r: r, stats: map[string]int{}}
	for s := 0; s < *n; s++ {
		g.sequence(*maxOps, *big > 0 && s%(*big+3) == 1, *stream%4 == 3)
	}
	g.printStats()
}
