// Command storageload drives the real core.Storage (LoadStores, LoadRegions/loadRegions, SaveStoreWeight,
// RegionStorage) on the three kv backends and writes the `<op> => <observation>` trace judged by the
// Lean model (property C17).
//
//	open mem|etcd|rs          core.Storage on the memory kv / on the embedded etcd / with a real RegionStorage
//	                          (leveldb under /var/tmp) and SwitchToRegionStorage
//	store id ver | stores n start step | delstore id | weight id lbits rbits | loadstores [errpattern]
//	region id:start:end:confver:version | regions n idstart idstep width | delregion id | loadregion id
//	loadregions plain|prune [errpattern]
//	flush | close (Close + reopen) | crash (leveldb closed without flushing the batch, reopened)
//	weights n start step      SaveStoreWeight for n stores (bit patterns 1.5+k ulp / 2.0+k ulp)
//	corrupt id                an unreadable record under the region key of id, written below core.Storage
//	loadonce [errpattern]     LoadRegionsOnce with CheckAndPutRegion of a fresh BasicCluster
//	pad n                     region keys get n filler bytes (fat regions)
//	switch default|region     SwitchToDefaultStorage / SwitchToRegionStorage on a Storage with a region storage
//	failflush | failregion r  Flush / SaveRegion of the region backend while every leveldb write fails
//	open rsg ; race id        region storage on a leveldb whose journal writes can be parked: DeleteRegion(id) is
//	                          parked inside its leveldb delete, Flush is started, the delete is released
//
// errpattern = string of 0/1, one per LoadRange call of the load (1 = that call fails).
package main

import (
	"context"
	"errors"
	"flag"
	"fmt"
	"math"
	"os"
	"sort"
	"strconv"
	"strings"
	"sync"
	"time"

	"github.com/pingcap/kvproto/pkg/metapb"
	"github.com/syndtr/goleveldb/leveldb"
	"github.com/syndtr/goleveldb/leveldb/storage"
	"github.com/tikv/pd/server/core"
	"github.com/tikv/pd/server/kv"

	"verifharness/internal/etcdh"
	_ "verifharness/internal/quiet"
	"verifharness/internal/rng"
	"verifharness/internal/trace"
)

var errInjected = errors.New("injected kv error")

// flakyKV fails the LoadRange calls selected by the pattern.
type flakyKV struct {
	kv.Base
	pattern string
	calls   int
}

func (k *flakyKV) LoadRange(key, endKey string, limit int) ([]string, []string, error) {
	i := k.calls
	k.calls++
	if i < len(k.pattern) && k.pattern[i] == '1' {
		return nil, nil, errInjected
	}
	return k.Base.LoadRange(key, endKey, limit)
}

// gate parks the next journal write of the gated leveldb
type gate struct {
	mu      sync.Mutex
	armed   bool
	parked  chan struct{}
	release chan struct{}
}

func (g *gate) arm() {
	g.mu.Lock()
	g.armed, g.parked, g.release = true, make(chan struct{}), make(chan struct{})
	g.mu.Unlock()
}

func (g *gate) disarm() {
	g.mu.Lock()
	g.armed = false
	g.mu.Unlock()
}

func (g *gate) pass() {
	g.mu.Lock()
	if !g.armed {
		g.mu.Unlock()
		return
	}
	g.armed = false
	p, r := g.parked, g.release
	g.mu.Unlock()
	close(p)
	<-r
}

type gatedStorage struct {
	storage.Storage
	g *gate
}

type gatedWriter struct {
	storage.Writer
	g *gate
}

func (s *gatedStorage) Create(fd storage.FileDesc) (storage.Writer, error) {
	wr, err := s.Storage.Create(fd)
	if err != nil || fd.Type != storage.TypeJournal {
		return wr, err
	}
	return &gatedWriter{Writer: wr, g: s.g}, nil
}

func (w *gatedWriter) Write(p []byte) (int, error) {
	w.g.pass()
	return w.Writer.Write(p)
}

type world struct {
	base    string
	seq     int
	etcd    *etcdh.Etcd
	backend string
	st      *core.Storage
	raw     kv.Base // the backend below core.Storage.Base
	rsDir   string
	rs      *core.RegionStorage
	rsCtx   context.Context
	rsStop  context.CancelFunc
	sel     bool // the region storage is selected (SwitchToRegionStorage)
	gated   bool // backend rsg
	gate    *gate
	gstor   storage.Storage // the file storage below the gated leveldb (closed by the harness)
	dead    *leveldb.DB     // a closed leveldb: swapped in to make the region storage's writes fail
	// the region storage flushes in the background 3 s after the last buffered save (checked once per
	// second); the harness keeps track so that it never races with that timer
	lastSave time.Time
	pending  bool
}

func (w *world) closeCurrent() {
	if w.rs != nil {
		w.rsStop()
		w.rs.Close()
		w.closeGatedFiles()
		os.RemoveAll(w.rsDir)
		w.rs = nil
	}
	w.st = nil
}

// withWriteFault runs f while every leveldb write of the region storage fails ("leveldb: closed"): the embedded
// DB is swapped for a closed one and put back (RegionStorage.LeveldbKV and LeveldbKV.DB are exported fields).
func (w *world) withWriteFault(f func() error) error {
	if w.dead == nil {
		db, err := leveldb.OpenFile(w.base+"/dead", nil)
		if err != nil {
			panic(err)
		}
		db.Close()
		w.dead = db
	}
	good := w.rs.LeveldbKV.DB
	w.rs.LeveldbKV.DB = w.dead
	defer func() { w.rs.LeveldbKV.DB = good }()
	return f()
}

func (w *world) closeGatedFiles() {
	if w.gstor != nil {
		w.gstor.Close()
		w.gstor = nil
	}
}

func (w *world) openRS() {
	w.rsCtx, w.rsStop = context.WithCancel(context.Background())
	rs, err := core.NewRegionStorage(w.rsCtx, w.rsDir, nil)
	if err != nil {
		panic(err)
	}
	if w.gated {
		// the same RegionStorage on a leveldb opened over a file storage whose journal writes can be parked
		if err := rs.LeveldbKV.Close(); err != nil {
			panic(err)
		}
		stor, err := storage.OpenFile(w.rsDir, false)
		if err != nil {
			panic(err)
		}
		w.gate, w.gstor = &gate{}, stor
		db, err := leveldb.Open(&gatedStorage{Storage: stor, g: w.gate}, nil)
		if err != nil {
			panic(err)
		}
		rs.LeveldbKV = &kv.LeveldbKV{DB: db}
	}
	w.rs = rs
	w.st = core.NewStorage(w.raw, core.WithRegionStorage(rs))
	if w.sel {
		w.st.SwitchToRegionStorage()
	}
}

func u(s string) uint64 {
	n, err := strconv.ParseUint(s, 10, 64)
	if err != nil {
		panic("bad number " + s)
	}
	return n
}

// keyPad: region keys are the 10-digit number followed by keyPad filler bytes ("fat" regions whose metas make a
// page of a range scan several MB large); the numbers, and so the model, stay the same
var keyPad int

func keyOf(n uint64) []byte {
	if n == 0 {
		return nil
	}
	return []byte(fmt.Sprintf("%010d", n) + strings.Repeat("x", keyPad))
}

func keyNum(b []byte) uint64 {
	if len(b) == 0 {
		return 0
	}
	if len(b) > 10 {
		b = b[:10]
	}
	n, err := strconv.ParseUint(string(b), 10, 64)
	if err != nil {
		panic("unexpected key " + string(b))
	}
	return n
}

func parseMeta(s string) *metapb.Region {
	f := strings.Split(s, ":")
	if len(f) != 5 {
		panic("bad region " + s)
	}
	return &metapb.Region{Id: u(f[0]), StartKey: keyOf(u(f[1])), EndKey: keyOf(u(f[2])),
		RegionEpoch: &metapb.RegionEpoch{ConfVer: u(f[3]), Version: u(f[4])}}
}

type ritem struct{ id, s, e, cv, v uint64 }

func itemOf(m *metapb.Region) ritem {
	return ritem{m.GetId(), keyNum(m.GetStartKey()), keyNum(m.GetEndKey()), m.GetRegionEpoch().GetConfVer(), m.GetRegionEpoch().GetVersion()}
}

func (r ritem) String() string { return fmt.Sprintf("%d:%d:%d:%d:%d", r.id, r.s, r.e, r.cv, r.v) }

// checksum of a region item (wrapping uint64 arithmetic; the Lean side computes the same modulo 2^64)
func (r ritem) sum() uint64 { return r.id*1000003 + r.s*10007 + r.e*101 + r.cv*7 + r.v }

// compress ids: maximal runs of consecutive ids as lo-hi
func fmtIDs(ids []uint64) string {
	var sb strings.Builder
	sb.WriteString("[")
	for i := 0; i < len(ids); {
		j := i
		for j+1 < len(ids) && ids[j+1] == ids[j]+1 && ids[j] != math.MaxUint64 {
			j++
		}
		if i > 0 {
			sb.WriteString(",")
		}
		if j > i {
			fmt.Fprintf(&sb, "%d-%d", ids[i], ids[j])
		} else {
			fmt.Fprintf(&sb, "%d", ids[i])
		}
		i = j + 1
	}
	sb.WriteString("]")
	return sb.String()
}

const fullLimit = 2500

func fmtRegions(tag string, items []ritem) string {
	ids := make([]uint64, len(items))
	var sum uint64
	for i, it := range items {
		ids[i] = it.id
		sum += it.sum()
	}
	s := fmt.Sprintf("%sn=%d %sids=%s %ssum=%d", tag, len(items), tag, fmtIDs(ids), tag, sum)
	if len(items) <= fullLimit {
		parts := make([]string, len(items))
		for i, it := range items {
			parts[i] = it.String()
		}
		s += fmt.Sprintf(" %sitems=[%s]", tag, strings.Join(parts, ";"))
	}
	return s
}

type sitem struct{ id, ver, lw, rw uint64 }

const oneBits = 0x3FF0000000000000

func (s sitem) String() string {
	if s.lw == oneBits && s.rw == oneBits {
		return fmt.Sprintf("%d:%d", s.id, s.ver)
	}
	return fmt.Sprintf("%d:%d:%d/%d", s.id, s.ver, s.lw, s.rw)
}

func (s sitem) sum() uint64 { return s.id*1000003 + s.ver*10007 + s.lw*101 + s.rw*7 }

func fmtStores(items []sitem) string {
	ids := make([]uint64, len(items))
	var sum uint64
	for i, it := range items {
		ids[i] = it.id
		sum += it.sum()
	}
	s := fmt.Sprintf("n=%d ids=%s sum=%d", len(items), fmtIDs(ids), sum)
	if len(items) <= fullLimit {
		parts := make([]string, len(items))
		for i, it := range items {
			parts[i] = it.String()
		}
		s += fmt.Sprintf(" items=[%s]", strings.Join(parts, ";"))
	}
	return s
}

func errName(err error) string {
	if err == nil {
		return "ok"
	}
	if errors.Is(err, errInjected) || strings.Contains(err.Error(), errInjected.Error()) ||
		strings.Contains(err.Error(), "ErrProtoUnmarshal") || strings.Contains(err.Error(), "leveldb: closed") {
		return "err"
	}
	return "err:" + strings.ReplaceAll(err.Error(), " ", "_")
}

// listRegions reads the region namespace of the backend directly (no paging, no Storage code)
func (w *world) listRegions() []ritem {
	var b kv.Base = w.raw
	if w.rs != nil && w.sel {
		b = w.rs
	}
	keys, vals, err := b.LoadRange("raft/r/", "raft/r0", 0)
	if err != nil {
		panic(err)
	}
	items := make([]ritem, 0, len(vals))
	for i, v := range vals {
		m := &metapb.Region{}
		if err := m.Unmarshal([]byte(v)); err != nil {
			// an unreadable record: shown as <id>:0:0:0:0 with the id of its key
			id, perr := strconv.ParseUint(strings.TrimPrefix(keys[i], "raft/r/"), 10, 64)
			if perr != nil {
				panic(perr)
			}
			items = append(items, ritem{id: id})
			continue
		}
		items = append(items, itemOf(m))
	}
	return items
}

func (w *world) withPattern(p string, f func() error) error {
	if p == "" {
		return f()
	}
	fl := &flakyKV{Base: w.st.Base, pattern: p}
	w.st.Base = fl
	defer func() { w.st.Base = fl.Base }()
	return f()
}

func (w *world) exec(op string) string {
	f := strings.Fields(op)
	bad := "bad-op"
	if len(f) == 0 {
		return bad
	}
	if f[0] == "reset" && len(f) == 1 {
		keyPad = 0
		w.closeCurrent()
		w.seq++
		return "ok"
	}
	if f[0] == "open" && len(f) == 2 {
		if w.st != nil {
			return bad
		}
		w.backend = f[1]
		switch f[1] {
		case "mem":
			w.raw = kv.NewMemoryKV()
			w.st = core.NewStorage(w.raw)
		case "etcd":
			if w.etcd == nil {
				w.etcd = etcdh.Start()
			}
			w.raw = kv.NewEtcdKVBase(w.etcd.Client, fmt.Sprintf("/verif/storageload/%d", w.seq))
			w.st = core.NewStorage(w.raw)
		case "rs", "rsg":
			w.raw = kv.NewMemoryKV()
			w.rsDir = fmt.Sprintf("%s/rs%d", w.base, w.seq)
			w.gated = f[1] == "rsg"
			w.sel = true
			w.openRS()
		default:
			return bad
		}
		// foreign keys around the two namespaces: they must never show up in a load
		for _, k := range []string{"raft", "raft/r", "raft/q/00000000000000000001", "raft/r0", "raft/s", "raft/s0",
			"raft/status/x", "raft/t/1", "schedule/store_weight", "config"} {
			if err := w.raw.Save(k, "noise"); err != nil {
				panic(err)
			}
		}
		if w.rs != nil {
			for _, k := range []string{"historyIndex", "raft/q/1", "raft/r0"} {
				if err := w.rs.Save(k, "7"); err != nil {
					panic(err)
				}
			}
		}
		return "ok"
	}
	if w.st == nil {
		return bad
	}
	st := w.st
	switch {
	case f[0] == "store" && len(f) == 3:
		return errName(st.SaveStore(&metapb.Store{Id: u(f[1]), Address: "v" + f[2]}))
	case f[0] == "stores" && len(f) == 4:
		n, start, step := int(u(f[1])), u(f[2]), u(f[3])
		for i := 0; i < n; i++ {
			if err := st.SaveStore(&metapb.Store{Id: start + uint64(i)*step, Address: "v0"}); err != nil {
				return errName(err)
			}
		}
		return "ok"
	case f[0] == "delstore" && len(f) == 2:
		return errName(st.DeleteStore(&metapb.Store{Id: u(f[1])}))
	case f[0] == "weight" && len(f) == 4:
		return errName(st.SaveStoreWeight(u(f[1]), math.Float64frombits(u(f[2])), math.Float64frombits(u(f[3]))))
	case f[0] == "loadstores" && (len(f) == 1 || len(f) == 2):
		p := ""
		if len(f) == 2 {
			p = f[1]
		}
		var items []sitem
		err := w.withPattern(p, func() error {
			return st.LoadStores(func(s *core.StoreInfo) {
				ver, _ := strconv.ParseUint(strings.TrimPrefix(s.GetMeta().GetAddress(), "v"), 10, 64)
				items = append(items, sitem{s.GetID(), ver, math.Float64bits(s.GetLeaderWeight()), math.Float64bits(s.GetRegionWeight())})
			})
		})
		return errName(err) + " " + fmtStores(items)
	case f[0] == "region" && len(f) == 2:
		if it := itemOf(parseMeta(f[1])); it.s == 0 && it.e == 0 && it.cv == 0 && it.v == 0 {
			return bad // reserved: this is how an unreadable record is written down
		}
		return errName(st.SaveRegion(parseMeta(f[1])))
	case f[0] == "pad" && len(f) == 2:
		if u(f[1]) > 1<<16 {
			return bad
		}
		keyPad = int(u(f[1]))
		return "ok"
	case f[0] == "switch" && len(f) == 2 && (f[1] == "default" || f[1] == "region"):
		// which backend SaveRegion / DeleteRegion / LoadRegion(s) use; the region storage and its pending batch stay
		if w.rs == nil {
			return bad
		}
		w.sel = f[1] == "region"
		if w.sel {
			st.SwitchToRegionStorage()
		} else {
			st.SwitchToDefaultStorage()
		}
		return "ok"
	case f[0] == "failregion" && len(f) == 2:
		// SaveRegion while the leveldb write fails (noticed only by the save that fills the batch)
		if w.rs == nil || !w.sel {
			return bad
		}
		if it := itemOf(parseMeta(f[1])); it.s == 0 && it.e == 0 && it.cv == 0 && it.v == 0 {
			return bad
		}
		return errName(w.withWriteFault(func() error { return st.SaveRegion(parseMeta(f[1])) }))
	case f[0] == "failflush" && len(f) == 1:
		if w.rs == nil {
			return bad
		}
		return errName(w.withWriteFault(st.Flush))
	case f[0] == "corrupt" && len(f) == 2:
		key := fmt.Sprintf("raft/r/%020d", u(f[1]))
		var b kv.Base = w.raw
		if w.rs != nil && w.sel {
			b = w.rs.LeveldbKV
		}
		return errName(b.Save(key, "\xff\xff not a region"))
	case f[0] == "weights" && len(f) == 4:
		n, start, step := int(u(f[1])), u(f[2]), u(f[3])
		for i := 0; i < n; i++ {
			l := math.Float64frombits(0x3FF8000000000000 + uint64(i))
			r := math.Float64frombits(0x4000000000000000 + uint64(i))
			if err := st.SaveStoreWeight(start+uint64(i)*step, l, r); err != nil {
				return errName(err)
			}
		}
		return "ok"
	case f[0] == "race" && len(f) == 2:
		if w.rs == nil || !w.gated || !w.sel {
			return bad
		}
		// DeleteRegion is parked inside its leveldb delete; a Flush is started (it blocks on the storage mutex
		// or, if Remove does not hold it, behind the parked write inside leveldb); the delete is released.
		id := u(f[1])
		w.gate.arm()
		d1 := make(chan error, 1)
		go func() { d1 <- st.DeleteRegion(&metapb.Region{Id: id}) }()
		select {
		case <-w.gate.parked:
		case err := <-d1:
			w.gate.disarm()
			return "not-parked-" + errName(err)
		case <-time.After(20 * time.Second):
			panic("race: the delete neither parked nor returned")
		}
		d2 := make(chan error, 1)
		go func() { d2 <- st.Flush() }()
		time.Sleep(60 * time.Millisecond)
		close(w.gate.release)
		e1, e2 := <-d1, <-d2
		if e1 != nil || e2 != nil {
			return "err"
		}
		return "ok"
	case f[0] == "regions" && len(f) == 5:
		n, start, step, width := int(u(f[1])), u(f[2]), u(f[3]), u(f[4])
		for i := 0; i < n; i++ {
			k := uint64(i)
			m := &metapb.Region{Id: start + k*step, StartKey: keyOf(k * width), EndKey: keyOf((k + 1) * width),
				RegionEpoch: &metapb.RegionEpoch{ConfVer: 1, Version: 1}}
			if err := st.SaveRegion(m); err != nil {
				return errName(err)
			}
		}
		return "ok"
	case f[0] == "delregion" && len(f) == 2:
		return errName(st.DeleteRegion(&metapb.Region{Id: u(f[1])}))
	case f[0] == "loadregion" && len(f) == 2:
		m := &metapb.Region{}
		ok, err := st.LoadRegion(u(f[1]), m)
		if err != nil {
			return errName(err)
		}
		if !ok {
			return "ok none"
		}
		return "ok " + itemOf(m).String()
	case f[0] == "loadregions" && (len(f) == 2 || len(f) == 3):
		p := ""
		if len(f) == 3 {
			p = f[2]
		}
		if p != "" && w.rs != nil {
			return bad // the region backend is not reachable through Storage.Base
		}
		var loaded []ritem
		switch f[1] {
		case "plain":
			err := w.withPattern(p, func() error {
				return st.LoadRegions(func(r *core.RegionInfo) []*core.RegionInfo {
					loaded = append(loaded, itemOf(r.GetMeta()))
					return nil
				})
			})
			return errName(err) + " " + fmtRegions("", loaded)
		case "prune":
			bc := core.NewBasicCluster()
			err := w.withPattern(p, func() error {
				return st.LoadRegions(func(r *core.RegionInfo) []*core.RegionInfo {
					loaded = append(loaded, itemOf(r.GetMeta()))
					return bc.CheckAndPutRegion(r)
				})
			})
			var cache []ritem
			for _, r := range bc.GetRegions() {
				cache = append(cache, itemOf(r.GetMeta()))
			}
			sort.Slice(cache, func(i, j int) bool { return cache[i].id < cache[j].id })
			return errName(err) + " " + fmtRegions("", loaded) + " " + fmtRegions("c", cache) + " " + fmtRegions("k", w.listRegions())
		}
		return bad
	case f[0] == "loadonce" && (len(f) == 1 || len(f) == 2):
		p := ""
		if len(f) == 2 {
			p = f[1]
		}
		if p != "" && w.rs != nil {
			return bad
		}
		var loaded []ritem
		bc := core.NewBasicCluster()
		err := w.withPattern(p, func() error {
			return st.LoadRegionsOnce(func(r *core.RegionInfo) []*core.RegionInfo {
				loaded = append(loaded, itemOf(r.GetMeta()))
				return bc.CheckAndPutRegion(r)
			})
		})
		var cache []ritem
		for _, r := range bc.GetRegions() {
			cache = append(cache, itemOf(r.GetMeta()))
		}
		sort.Slice(cache, func(i, j int) bool { return cache[i].id < cache[j].id })
		return errName(err) + " " + fmtRegions("", loaded) + " " + fmtRegions("c", cache) + " " + fmtRegions("k", w.listRegions())
	case f[0] == "flush" && len(f) == 1:
		return errName(st.Flush())
	case f[0] == "close" && len(f) == 1:
		if w.rs == nil {
			return errName(st.Close())
		}
		if err := st.Close(); err != nil {
			return errName(err)
		}
		w.rsStop()
		w.closeGatedFiles()
		w.openRS()
		return "ok"
	case f[0] == "crash" && len(f) == 1:
		if w.rs == nil {
			return bad
		}
		// the process dies: nothing of the pending batch is written; leveldb itself is closed properly
		w.rsStop()
		if err := w.rs.LeveldbKV.Close(); err != nil {
			return errName(err)
		}
		w.closeGatedFiles()
		w.openRS()
		return "ok"
	case f[0] == "bgflush" && len(f) == 1:
		if w.rs == nil {
			return bad
		}
		// wait for the background flush (flushTime = last save + 3 s, checked once per second)
		w.waitBackgroundFlush()
		return "ok"
	}
	return bad
}

func (w *world) waitBackgroundFlush() {
	if d := 5500*time.Millisecond - time.Since(w.lastSave); d > 0 {
		time.Sleep(d)
	}
	w.pending = false
}

func (w *world) do(t *trace.W, op string) string {
	// A slow run (loaded machine) could let the 3 s flush timer fire between two ops.  If a buffered save is
	// more than 1.5 s old, make the background flush certain and say so in the trace.
	if w.rs != nil && w.pending && time.Since(w.lastSave) > 1500*time.Millisecond && !strings.HasPrefix(op, "reset") {
		w.waitBackgroundFlush()
		t.Line("bgflush", "ok")
	}
	obs := w.exec(op)
	if w.rs != nil {
		switch strings.Fields(op)[0] {
		case "region", "regions", "failregion":
			w.lastSave, w.pending = time.Now(), true
		case "flush", "close", "crash", "bgflush", "race":
			w.pending = false
		}
	}
	t.Line(op, obs)
	return obs
}

func main() {
	out := flag.String("out", "-", "trace file")
	replay := flag.String("replay", "", "ops file to replay instead of generating")
	n := flag.Int("n", 40, "number of generated sequences")
	maxOps := flag.Int("len", 40, "max ops per sequence")
	stream := flag.Uint64("stream", 0, "PRNG stream")
	big := flag.Int("big", 2, "how many sequences of this stream may use sets of 10 000+ items")
	bg := flag.Int("bg", 0, "how many times this stream may wait (4.3 s) for the time-based background flush of the region storage")
	flag.Parse()

	base, err := os.MkdirTemp("/var/tmp", "verif-storageload-")
	if err != nil {
		panic(err)
	}
	w := &world{base: base}
	t := trace.Create(*out)
	finish := func() {
		w.closeCurrent()
		if w.etcd != nil {
			w.etcd.Stop()
		}
		t.Close()
		os.RemoveAll(base)
	}
	defer finish()
	if *replay != "" {
		for _, op := range trace.ReadOps(*replay) {
			w.do(t, op)
		}
		return
	}
	r := rng.FromEnv(*stream)
	for s := 0; s < *n; s++ {
		gen(w, t, r, *maxOps, big, bg)
	}
}
