package main

import (
	"fmt"
	"math"
	"strings"

	"verifharness/internal/rng"
	"verifharness/internal/trace"
)

// page sizes loadRegions can be at: maxKVRangeLimit halved 0..6 times
var limits = []int{10000, 5000, 2500, 1250, 625, 312, 156}

func pickBackend(r *rng.R) string {
	return []string{"mem", "mem", "mem", "etcd", "rs", "rs"}[r.Intn(6)]
}

// an error pattern for a load that needs about `calls` successful LoadRange calls: `ones` failures spread in
func pattern(r *rng.R, ones, calls int) string {
	var sb strings.Builder
	for ones > 0 || calls > 0 {
		if ones > 0 && (calls == 0 || r.Bool(1, 2)) {
			sb.WriteByte('1')
			ones--
		} else {
			sb.WriteByte('0')
			calls--
		}
	}
	return strings.TrimRight(sb.String(), "0")
}

func finiteBits(r *rng.R) uint64 {
	switch r.Intn(6) {
	case 0:
		return math.Float64bits(1)
	case 1:
		return math.Float64bits(0)
	case 2:
		return math.Float64bits(float64(r.Intn(1000)) / 8)
	case 3:
		return math.Float64bits(1e-7 * float64(r.Intn(1000)))
	}
	for {
		b := r.U64()
		if (b>>52)&0x7ff != 0x7ff { // not NaN/Inf
			return b
		}
	}
}

func idNear(r *rng.R, near uint64) uint64 {
	return near - uint64(r.Intn(4))
}

// genStores: LoadStores with its fixed page size of 100
func genStores(w *world, t *trace.W, r *rng.R, maxOps int, big *int) {
	w.do(t, "reset")
	backend := pickBackend(r)
	w.do(t, "open "+backend)
	n := []int{0, 1, 2, 50, 51, 60, 80, 99, 100, 101, 150, 199, 200, 201, 250, 300, 301}[r.Intn(17)]
	if *big > 0 && backend != "etcd" && r.Bool(1, 6) {
		n = []int{9999, 10000, 10001}[r.Intn(3)]
		*big--
	}
	var start, step uint64
	switch r.Intn(6) {
	case 0:
		start, step = 0, 1
	case 1:
		start, step = 1, 1
	case 2:
		start, step = uint64(r.Intn(1000)), uint64(r.Range(2, 9))
	case 3:
		start, step = uint64(r.Intn(1000)), 1<<32
	case 4: // dense block ending just below the top of the range
		step = 1
		start = math.MaxUint64 - 1 - uint64(n) - uint64(r.Intn(3))
		if n == 0 {
			start = 0
		}
	default:
		start, step = r.U64()>>uint(r.Range(1, 40)), uint64(r.Range(1, 1000))
	}
	if n > 0 {
		w.do(t, fmt.Sprintf("stores %d %d %d", n, start, step))
	}
	if n > 0 && n <= 400 && r.Bool(2, 5) {
		// many stores of one page carry explicitly saved weights (two weight keys per store); now and then
		// also ids that have weights but no store
		m := n
		if r.Bool(1, 2) {
			m = r.Range(n/2+1, n)
		}
		w.do(t, fmt.Sprintf("weights %d %d %d", m, start, step))
		if step > 1 && r.Bool(1, 3) {
			w.do(t, fmt.Sprintf("weights %d %d %d", r.Range(1, 60), start+1, step))
		}
		w.do(t, "loadstores")
	}
	if r.Bool(1, 25) {
		w.do(t, fmt.Sprintf("store %d %d", uint64(math.MaxUint64), r.Intn(9))) // known finding F7a
	}
	known := func() uint64 {
		if n > 0 && r.Bool(3, 4) {
			return start + uint64(r.Intn(n))*step
		}
		switch r.Intn(4) {
		case 0:
			return idNear(r, math.MaxUint64-1)
		case 1:
			return uint64(r.Intn(400))
		default:
			return r.U64() >> uint(r.Intn(64))
		}
	}
	ops := r.Range(3, maxOps)
	for k := 0; k < ops; k++ {
		switch r.Pick(25, 20, 20, 35) {
		case 0:
			w.do(t, fmt.Sprintf("store %d %d", known(), r.Intn(1000)))
		case 1:
			w.do(t, fmt.Sprintf("delstore %d", known()))
		case 2:
			w.do(t, fmt.Sprintf("weight %d %d %d", known(), finiteBits(r), finiteBits(r)))
		case 3:
			if r.Bool(1, 8) {
				w.do(t, "loadstores "+pattern(r, 1, r.Intn(4)))
			} else {
				w.do(t, "loadstores")
			}
		}
	}
	w.do(t, "loadstores")
}

// genRegionsPaging: bulk sets around the page boundaries of the adaptive limit, error patterns
func genRegionsPaging(w *world, t *trace.W, r *rng.R, maxOps int, big *int) {
	w.do(t, "reset")
	backend := []string{"mem", "mem", "etcd"}[r.Intn(3)]
	w.do(t, "open "+backend)
	h := r.Range(3, 6)
	large := false
	if *big > 0 && backend == "mem" && r.Bool(1, 3) {
		h = r.Intn(3)
		large = *big <= 4 // mostly one page of the large limits (the model's bulk insert is quadratic)
		*big--
	}
	lim := limits[h]
	n := []int{lim - 1, lim, lim + 1, 2*lim - 1, 2 * lim, 2*lim + 1, lim / 2, 3 * lim}[r.Intn(8)]
	if large {
		n = []int{lim - 1, lim, lim + 1}[r.Intn(3)]
	}
	if backend == "etcd" && n > 700 {
		n = []int{lim - 1, lim, lim + 1}[r.Intn(3)]
	}
	var start, step uint64
	switch r.Intn(4) {
	case 0:
		start, step = 1, 1
	case 1:
		start, step = uint64(r.Intn(100)), uint64(r.Range(2, 5))
	case 2:
		step = 1
		start = math.MaxUint64 - 1 - uint64(n) - uint64(r.Intn(2))
	default:
		start, step = r.U64()>>uint(r.Range(8, 40)), uint64(r.Range(1, 100000))
	}
	pages := n/lim + 1
	width := uint64(r.Range(1, 50))
	w.do(t, fmt.Sprintf("regions %d %d %d %d", n, start, step, width))
	if r.Bool(1, 25) {
		w.do(t, fmt.Sprintf("region %d:%d:%d:1:1", uint64(math.MaxUint64), 900000, 900001)) // known finding F7a
	}
	if r.Bool(1, 2) {
		// leftovers right at a page boundary of the forced limit: the item at index k swallows its three
		// predecessors (newer version) or is stale against a newer predecessor, so the pruning deletes from the
		// storage exactly where the paging continues
		for _, b := range []int{lim, 2 * lim} {
			for _, k := range []int{b - 2, b - 1, b, b + 1} {
				if k < 4 || k >= n || !r.Bool(1, 2) {
					continue
				}
				id := start + uint64(k)*step
				if r.Bool(2, 3) {
					w.do(t, fmt.Sprintf("region %d:%d:%d:1:2", id, uint64(k-3)*width, uint64(k+1)*width))
				} else {
					w.do(t, fmt.Sprintf("region %d:%d:%d:1:3", start+uint64(k-1)*step, uint64(k-1)*width, uint64(k)*width))
					w.do(t, fmt.Sprintf("region %d:%d:%d:1:1", id, uint64(k-2)*width, uint64(k+1)*width))
				}
			}
		}
		// the first successful call must already run at the forced limit: all failures first
		w.do(t, "loadregions prune "+strings.Repeat("1", h))
		w.do(t, "loadregions plain "+pattern(r, r.Intn(3), pages))
	} else {
		w.do(t, "loadregions plain "+pattern(r, h, pages))
	}
	for k := r.Intn(4); k > 0; k-- {
		ones := r.Intn(8)
		mode := "plain"
		if r.Bool(1, 3) {
			mode = "prune"
		}
		switch r.Intn(3) {
		case 0:
			w.do(t, fmt.Sprintf("delregion %d", start+uint64(r.Intn(n+1))*step))
		case 1:
			w.do(t, fmt.Sprintf("region %d:%d:%d:1:%d", start+uint64(r.Intn(n+1))*step, r.Intn(50), r.Range(50, 99), r.Range(1, 3)))
		}
		w.do(t, fmt.Sprintf("loadregions %s %s", mode, pattern(r, ones, r.Intn(pages+2))))
	}
	w.do(t, "loadregions plain")
}

type leftover struct{ id, s, e, cv, v uint64 }

// genRegionsPrune: overlapping and stale leftovers, pruned while loading; save/delete/flush/close/stop histories
func genRegionsPrune(w *world, t *trace.W, r *rng.R, maxOps int, bg *int) {
	w.do(t, "reset")
	backend := pickBackend(r)
	w.do(t, "open "+backend)
	rs := backend == "rs"
	if rs && r.Bool(1, 3) {
		// get close to the batch boundary of the region storage
		w.do(t, fmt.Sprintf("regions %d %d 1 3", []int{98, 99, 100, 101, 199}[r.Intn(5)], 1000))
	}
	grid := func() (uint64, uint64) {
		s := uint64(r.Intn(10)) * 10
		e := s + uint64(r.Range(1, 5))*10
		if r.Bool(1, 8) {
			e = 0
		}
		return s, e
	}
	ops := r.Range(4, maxOps)
	stopped := false
	sel := true
	for k := 0; k < ops; k++ {
		c := r.Pick(40, 12, 10, 8, 4, 12, 8, 6)
		if stopped && c != 5 {
			// after a stop the next op is a full load (the monitor settles on what survived)
			c = 5
		}
		switch c {
		case 0:
			s, e := grid()
			w.do(t, fmt.Sprintf("region %d:%d:%d:%d:%d", r.Range(1, 14), s, e, r.Range(1, 3), r.Range(1, 5)))
		case 1:
			w.do(t, fmt.Sprintf("delregion %d", r.Range(1, 14)))
		case 2:
			if rs && r.Bool(1, 5) {
				// the selector moves to the other backend; the region storage keeps its pending batch, Flush and
				// Close still write it out
				sel = !sel
				if sel {
					w.do(t, "switch region")
				} else {
					w.do(t, "switch default")
				}
				if r.Bool(2, 3) {
					w.do(t, "flush")
					if !sel && r.Bool(1, 2) {
						// back at once: what was pending when the selector moved must have been written by that flush
						sel = true
						w.do(t, "switch region")
					}
				}
				if r.Bool(1, 2) {
					w.do(t, "loadregions plain")
				}
				continue
			}
			if rs && r.Bool(1, 4) {
				// the leveldb write of this flush (or of the save that fills the batch) fails; nothing may be lost
				if r.Bool(1, 2) {
					w.do(t, "failflush")
				} else {
					s, e := grid()
					w.do(t, fmt.Sprintf("failregion %d:%d:%d:%d:%d", r.Range(1, 14), s, e, r.Range(1, 3), r.Range(1, 5)))
				}
				continue
			}
			if rs && *bg > 0 && r.Bool(1, 6) {
				*bg--
				w.do(t, "bgflush") // the time-based flush instead of an explicit one
			} else {
				w.do(t, "flush")
			}
		case 3:
			w.do(t, "close")
		case 4:
			if rs {
				w.do(t, "crash")
				stopped = true
			}
		case 5:
			w.do(t, "loadregions plain")
			stopped = false
		case 6:
			if rs && r.Bool(1, 2) {
				w.do(t, "flush")
			}
			w.do(t, "loadregions prune")
		case 7:
			w.do(t, fmt.Sprintf("loadregion %d", r.Range(1, 14)))
		}
	}
	if stopped {
		w.do(t, "loadregions plain")
	}
	if !sel {
		w.do(t, "flush")
		w.do(t, "loadregions plain")
		w.do(t, "switch region")
	}
	w.do(t, "flush")
	w.do(t, "loadregions prune")
	w.do(t, "loadregions plain")
}

// genOnce: LoadRegionsOnce (pruning callback on a fresh cache every time) on one Storage object: loads that fail
// part-way because of an unreadable record (or failing LoadRange calls on the default backend), the record is
// rewritten or deleted, the load is retried; repeated calls after a success; close/stop in between.
func genOnce(w *world, t *trace.W, r *rng.R, maxOps int) {
	w.do(t, "reset")
	backend := []string{"rs", "rs", "rs", "mem", "etcd"}[r.Intn(5)]
	w.do(t, "open "+backend)
	rs := backend == "rs"
	n := []int{0, 3, 40, 150, 300}[r.Intn(5)]
	start, step := uint64(r.Range(1, 50)), uint64(r.Range(1, 4))
	width := uint64(r.Range(2, 9))
	if n > 0 {
		w.do(t, fmt.Sprintf("regions %d %d %d %d", n, start, step, width))
	}
	anyID := func() uint64 {
		if n == 0 {
			return uint64(r.Range(1, 30))
		}
		return start + uint64(r.Intn(n))*step
	}
	// leftovers: a region swallowing some predecessors, a stale one
	for k := r.Intn(3); k > 0 && n > 6; k-- {
		i := r.Range(4, n-1)
		w.do(t, fmt.Sprintf("region %d:%d:%d:1:2", start+uint64(i)*step, uint64(i-2)*width, uint64(i+1)*width))
	}
	w.do(t, "flush")
	idx := func(id uint64) uint64 {
		if id >= start {
			return (id - start) / step
		}
		return id
	}
	var damaged []uint64
	ops := r.Range(3, maxOps/2+3)
	for k := 0; k < ops; k++ {
		switch r.Pick(22, 30, 14, 8, 8, 8, 10) {
		case 0:
			id := anyID()
			w.do(t, fmt.Sprintf("corrupt %d", id))
			damaged = append(damaged, id)
		case 1:
			if !rs && r.Bool(1, 3) {
				w.do(t, "loadonce "+pattern(r, r.Intn(8), r.Intn(3)))
			} else {
				w.do(t, "loadonce")
			}
		case 2: // repair: the record is written again (next heartbeat / sync of that region) or deleted
			if len(damaged) == 0 {
				continue
			}
			id := damaged[len(damaged)-1]
			damaged = damaged[:len(damaged)-1]
			if r.Bool(3, 4) {
				i := idx(id)
				w.do(t, fmt.Sprintf("region %d:%d:%d:1:%d", id, i*width, (i+1)*width, r.Range(1, 3)))
			} else {
				w.do(t, fmt.Sprintf("delregion %d", id))
			}
			w.do(t, "flush")
		case 3:
			w.do(t, "close")
		case 4:
			if rs {
				w.do(t, "crash")
				w.do(t, "loadregions plain")
			}
		case 5:
			w.do(t, "loadregions plain")
		case 6:
			i := uint64(r.Intn(n + 5))
			w.do(t, fmt.Sprintf("region %d:%d:%d:1:%d", start+i*step, i*width, (i+1)*width, r.Range(1, 3)))
			w.do(t, "flush")
		}
	}
	for _, id := range damaged {
		i := idx(id)
		w.do(t, fmt.Sprintf("region %d:%d:%d:1:3", id, i*width, (i+1)*width))
	}
	w.do(t, "flush")
	w.do(t, "loadonce")
	w.do(t, "loadonce")
	w.do(t, "loadregions plain")
}

// genRace: the region storage on a leveldb whose journal writes can be parked: a delete of a region whose save is
// still pending is parked inside leveldb while a flush is started.
func genRace(w *world, t *trace.W, r *rng.R, maxOps int) {
	w.do(t, "reset")
	w.do(t, "open rsg")
	if r.Bool(1, 3) {
		w.do(t, fmt.Sprintf("regions %d 1000 1 3", []int{97, 98, 99}[r.Intn(3)]))
	}
	for k := r.Range(2, 6); k > 0; k-- {
		id := r.Range(1, 9)
		switch r.Intn(4) {
		case 0:
			w.do(t, fmt.Sprintf("region %d:%d:%d:1:%d", id, id*10, id*10+10, r.Range(1, 3)))
			w.do(t, "flush")
		case 1:
			w.do(t, fmt.Sprintf("region %d:%d:%d:1:%d", r.Range(1, 9), id*10, id*10+10, r.Range(1, 3)))
		}
		w.do(t, fmt.Sprintf("region %d:%d:%d:1:%d", id, id*10, id*10+10, r.Range(1, 3)))
		w.do(t, fmt.Sprintf("race %d", id))
		if r.Bool(1, 2) {
			w.do(t, fmt.Sprintf("loadregion %d", id))
		}
		w.do(t, "loadregions plain")
	}
	w.do(t, "close")
	w.do(t, "loadregions plain")
}

// genFault: leveldb writes of the region storage fail for a while (disk full, I/O error): explicit flushes and
// the flush of the save that fills the batch return an error; later, when writes work again, flush / close /
// reopen / full load must still show every region whose save was acknowledged.
func genFault(w *world, t *trace.W, r *rng.R, maxOps int) {
	w.do(t, "reset")
	w.do(t, "open rs")
	id := uint64(r.Range(1, 20))
	save := func(op string) {
		w.do(t, fmt.Sprintf("%s %d:%d:%d:1:%d", op, id, id*10, id*10+10, r.Range(1, 3)))
		id += uint64(r.Range(1, 3))
	}
	if r.Bool(1, 2) {
		// right below the batch boundary
		n := []int{97, 98, 99}[r.Intn(3)]
		w.do(t, fmt.Sprintf("regions %d %d 1 3", n, 5000))
		for k := 99 - n + r.Intn(3); k > 0; k-- {
			save("failregion")
		}
	}
	for k := r.Range(2, maxOps/3+2); k > 0; k-- {
		switch r.Pick(35, 15, 20, 10, 8, 12) {
		case 0:
			save("region")
		case 1:
			save("failregion")
		case 2:
			w.do(t, "failflush")
		case 3:
			w.do(t, "flush")
		case 4:
			w.do(t, fmt.Sprintf("delregion %d", uint64(r.Range(1, int(id)))))
		case 5:
			w.do(t, "flush")
			w.do(t, "loadregions plain")
		}
	}
	save("region")
	w.do(t, "flush")
	w.do(t, "close")
	w.do(t, "loadregions plain")
}

// genFat: regions with long keys: a page of a range scan is several MB large although it has far fewer than
// rangeLimit items (a backend that cuts pages by size must not end the load)
func genFat(w *world, t *trace.W, r *rng.R, big *int) {
	w.do(t, "reset")
	w.do(t, "open "+[]string{"rs", "rs", "mem"}[r.Intn(3)])
	n, pad := 600, 8192
	if r.Bool(1, 2) {
		n, pad = 300, 16384
	}
	if *big > 1 && r.Bool(1, 2) {
		n, pad = 3000, 2048
		*big--
	}
	w.do(t, fmt.Sprintf("pad %d", pad))
	w.do(t, fmt.Sprintf("regions %d %d %d %d", n, r.Range(1, 1000), r.Range(1, 3), r.Range(1, 9)))
	w.do(t, "flush")
	w.do(t, "loadregions plain")
	if r.Bool(1, 2) {
		w.do(t, fmt.Sprintf("region %d:%d:%d:1:2", r.Range(1, 1000), 0, 40))
		w.do(t, "flush")
	}
	w.do(t, "loadregions prune")
	w.do(t, "close")
	w.do(t, "loadregions plain")
}

func gen(w *world, t *trace.W, r *rng.R, maxOps int, big, bg *int) {
	switch r.Pick(27, 21, 30, 11, 6, 5, 2) {
	case 5:
		genFault(w, t, r, maxOps)
	case 6:
		genFat(w, t, r, big)
	case 0:
		genStores(w, t, r, maxOps, big)
	case 1:
		genRegionsPaging(w, t, r, maxOps, big)
	case 2:
		genRegionsPrune(w, t, r, maxOps, bg)
	case 3:
		genOnce(w, t, r, maxOps)
	default:
		genRace(w, t, r, maxOps)
	}
}
