// Command fit drives the real placement.FitRegion / RegionFit.IsSatisfied / CompareRegionFit and writes
// the `<op> => <observation>` trace judged by the Lean model and monitor (property C12).
package main

import (
	"flag"
	"fmt"
	"math"
	"sort"
	"strconv"
	"strings"

	"github.com/pingcap/kvproto/pkg/metapb"
	"github.com/tikv/pd/server/core"
	"github.com/tikv/pd/server/schedule/placement"

	_ "verifharness/internal/quiet"
	"verifharness/internal/rng"
	"verifharness/internal/trace"
)

type storeSet struct{ list []*core.StoreInfo }

func (s storeSet) GetStores() []*core.StoreInfo { return s.list }
func (s storeSet) GetStore(id uint64) *core.StoreInfo {
	for _, st := range s.list {
		if st.GetID() == id {
			return st
		}
	}
	return nil
}

type world struct {
	stores storeSet
	peers  []*metapb.Peer
	leader uint64
	rules  []*placement.Rule
	fits   []*placement.RegionFit
}

func splitList(s, sep string) []string {
	if s == "-" || s == "" {
		return nil
	}
	return strings.Split(s, sep)
}

func ids(ps []*metapb.Peer) string {
	if len(ps) == 0 {
		return "-"
	}
	var b []string
	for _, p := range ps {
		b = append(b, strconv.FormatUint(p.GetId(), 10))
	}
	return strings.Join(b, ",")
}

func scoreStr(s float64) string {
	if s != math.Trunc(s) || s < 0 || s >= 1<<53 {
		return fmt.Sprintf("nonint:%v", s)
	}
	return strconv.FormatUint(uint64(s), 10)
}

func fitStr(f *placement.RegionFit) string {
	var rf []string
	for _, r := range f.RuleFits {
		if r == nil {
			rf = append(rf, "nil")
			continue
		}
		rf = append(rf, fmt.Sprintf("%s/%s/%s", ids(r.Peers), ids(r.PeersWithDifferentRole), scoreStr(r.IsolationScore)))
	}
	fs := "-"
	if len(rf) > 0 {
		fs = strings.Join(rf, ";")
	}
	sat := 0
	func() {
		defer func() {
			if recover() != nil {
				sat = 2 // IsSatisfied panicked (nil rule fit)
			}
		}()
		if f.IsSatisfied() {
			sat = 1
		}
	}()
	return fmt.Sprintf("F=%s O=%s S=%d", fs, ids(f.OrphanPeers), sat)
}

func (w *world) exec(op string) (res string) {
	defer func() {
		if r := recover(); r != nil {
			res = "panic" // e.g. a nil rule fit handed to CompareRegionFit
		}
	}()
	f := strings.Fields(op)
	u64 := func(s string) uint64 { n, _ := strconv.ParseUint(s, 10, 64); return n }
	switch {
	case len(f) == 1 && f[0] == "reset":
		*w = world{}
		return "ok"
	case len(f) == 3 && f[0] == "store":
		var labels []*metapb.StoreLabel
		for _, l := range splitList(f[2], ",") {
			kv := strings.SplitN(l, "=", 2)
			v := ""
			if len(kv) == 2 {
				v = kv[1]
			}
			labels = append(labels, &metapb.StoreLabel{Key: kv[0], Value: v})
		}
		w.stores.list = append(w.stores.list, core.NewStoreInfo(&metapb.Store{Id: u64(f[1]), Labels: labels}))
		return "ok"
	case len(f) == 4 && f[0] == "peer":
		role := metapb.PeerRole_Voter
		if f[3] == "l" {
			role = metapb.PeerRole_Learner
		}
		w.peers = append(w.peers, &metapb.Peer{Id: u64(f[1]), StoreId: u64(f[2]), Role: role})
		return "ok"
	case len(f) == 2 && f[0] == "leader":
		w.leader = u64(f[1])
		return "ok"
	case len(f) == 1 && f[0] == "newregion":
		w.peers, w.leader = nil, 0
		return "ok"
	case len(f) == 1 && f[0] == "newrules":
		w.rules = nil
		return "ok"
	case len(f) == 5 && f[0] == "rule":
		cnt, _ := strconv.Atoi(f[2])
		r := &placement.Rule{GroupID: "g", ID: fmt.Sprintf("r%d", len(w.rules)), Role: placement.PeerRoleType(f[1]), Count: cnt}
		for _, c := range splitList(f[3], ";") {
			p := strings.Split(c, ":")
			lc := placement.LabelConstraint{Key: p[0]}
			if len(p) > 1 {
				lc.Op = placement.LabelConstraintOp(p[1])
			}
			if len(p) > 2 && p[2] != "" {
				lc.Values = strings.Split(p[2], "|")
			}
			r.LabelConstraints = append(r.LabelConstraints, lc)
		}
		r.LocationLabels = splitList(f[4], ",")
		w.rules = append(w.rules, r)
		return "ok"
	case len(f) == 1 && f[0] == "fit":
		var leader *metapb.Peer
		for _, p := range w.peers {
			if p.GetId() == w.leader {
				leader = p
			}
		}
		if leader == nil && w.leader != 0 {
			leader = &metapb.Peer{Id: w.leader}
		}
		peers := append([]*metapb.Peer(nil), w.peers...)
		region := core.NewRegionInfo(&metapb.Region{Id: 1, Peers: peers}, leader)
		fit := placement.FitRegion(w.stores, region, w.rules)
		w.fits = append(w.fits, fit)
		return fitStr(fit)
	case len(f) == 3 && f[0] == "cmp":
		i, j := int(u64(f[1])), int(u64(f[2]))
		if i >= len(w.fits) || j >= len(w.fits) {
			return "bad-op"
		}
		return strconv.Itoa(placement.CompareRegionFit(w.fits[i], w.fits[j]))
	}
	return "bad-op"
}

func (w *world) run(t *trace.W, op string) {
	t.Line(op, w.exec(op))
}

// ---------------------------------------------------------------------------------------------
// random generator

var locKeys = []string{"zone", "rack", "host"}

type gen struct {
	r      *rng.R
	w      *world
	t      *trace.W
	bad    bool // malformed stream
	nStore int
	nv, nl int // voters / learners of the current region
	hist   map[string]int
}

func (g *gen) val(k string, n int) string { return fmt.Sprintf("%s%d", k[:1], g.r.Intn(n)+1) }

func (g *gen) storeLabels() string {
	r := g.r
	var ls []string
	for _, k := range locKeys {
		if r.Bool(4, 5) {
			key, v := k, g.val(k, 2+r.Intn(2))
			if r.Bool(1, 25) {
				key = strings.ToUpper(key[:1]) + key[1:]
			}
			if r.Bool(1, 25) {
				v = strings.ToUpper(v)
			}
			if r.Bool(1, 40) {
				v = ""
			}
			ls = append(ls, key+"="+v)
		}
	}
	if r.Bool(1, 4) {
		ls = append(ls, "disk="+[]string{"ssd", "hdd"}[r.Intn(2)])
	}
	if r.Bool(1, 6) {
		ls = append(ls, []string{"$x=1", "engine=tiflash", "exclusive=e", "$y=2", "$x=2"}[r.Intn(5)])
	}
	if r.Bool(1, 30) && len(ls) > 0 { // duplicate key, first one wins
		ls = append(ls, strings.SplitN(ls[0], "=", 2)[0]+"=dup")
	}
	if len(ls) == 0 {
		return "-"
	}
	return strings.Join(shuffle(r, ls), ",")
}

func perm(r *rng.R, n int) []int {
	p := make([]int, n)
	for i := range p {
		p[i] = i
	}
	return p
}

func shuffle(r *rng.R, l []string) []string {
	o := append([]string(nil), l...)
	for i := len(o) - 1; i > 0; i-- {
		j := r.Intn(i + 1)
		o[i], o[j] = o[j], o[i]
	}
	return o
}

func (g *gen) constraint() string {
	r := g.r
	keys := []string{"zone", "rack", "host", "disk", "$x", "engine", "exclusive", "$y", "nokey"}
	k := keys[r.Pick(6, 3, 3, 3, 3, 2, 1, 1, 1)]
	op := []string{"in", "notIn", "exists", "notExists"}[r.Pick(5, 3, 2, 2)]
	if g.bad && r.Bool(1, 4) {
		op = []string{"In", "", "is"}[r.Intn(3)]
	}
	var vs []string
	if op == "in" || op == "notIn" || r.Bool(1, 10) {
		for n := r.Range(0, 3); n > 0; n-- {
			switch k {
			case "zone", "rack", "host":
				vs = append(vs, g.val(k, 3))
			case "disk":
				vs = append(vs, []string{"ssd", "hdd"}[r.Intn(2)])
			case "engine":
				vs = append(vs, "tiflash")
			default:
				vs = append(vs, strconv.Itoa(r.Range(1, 2)))
			}
		}
	}
	if (op == "in" || op == "notIn" || len(vs) > 0) && r.Bool(1, 5) {
		// a value list that contains the empty string (adjustRule validates only the op): `in` must still be false and
		// `notIn` true for a store without the label
		vs = append(vs, "")
		if len(vs) > 1 && r.Bool(1, 2) {
			vs[0], vs[len(vs)-1] = vs[len(vs)-1], vs[0]
		}
		if len(vs) == 1 {
			vs = append(vs, "") // "|" on the wire: the list ["", ""]
		}
		g.hist["constraint-with-empty-value"]++
	}
	g.hist["op:"+op]++
	return k + ":" + op + ":" + strings.Join(vs, "|")
}

func (g *gen) rule() string {
	r := g.r
	role := []string{"voter", "leader", "follower", "learner"}[r.Pick(6, 2, 3, 3)]
	if g.bad && r.Bool(1, 5) {
		role = []string{"Voter", "x", "witness"}[r.Intn(3)]
	}
	count := []int{1, 1, 1, 2, 2, 3, 3, 4, 5}[r.Intn(9)]
	if role == "leader" && r.Bool(3, 4) {
		count = 1
	}
	if (g.bad && r.Bool(1, 4)) || r.Bool(1, 60) {
		count = 0
	}
	cs := "-"
	if n := r.Pick(5, 4, 2); n > 0 {
		var l []string
		for ; n > 0; n-- {
			l = append(l, g.constraint())
		}
		cs = strings.Join(l, ";")
	}
	loc := "-"
	if n := r.Pick(3, 3, 3, 2); n > 0 {
		l := shuffle(r, locKeys)[:n]
		if r.Bool(3, 4) {
			sort.Slice(l, func(i, j int) bool { return idx(locKeys, l[i]) < idx(locKeys, l[j]) })
		}
		loc = strings.Join(l, ",")
	}
	g.hist["role:"+role]++
	g.hist[fmt.Sprintf("count:%d", count)]++
	return fmt.Sprintf("rule %s %d %s %s", role, count, cs, loc)
}

func idx(l []string, s string) int {
	for i, x := range l {
		if x == s {
			return i
		}
	}
	return -1
}

func (g *gen) region() {
	r := g.r
	g.w.run(g.t, "newregion")
	n := r.Range(1, 6)
	if r.Bool(1, 40) {
		n = 0
	}
	if n > g.nStore && r.Bool(9, 10) {
		n = g.nStore
	}
	stores := perm(r, g.nStore)
	for i := len(stores) - 1; i > 0; i-- {
		j := r.Intn(i + 1)
		stores[i], stores[j] = stores[j], stores[i]
	}
	idsUsed := map[int]bool{}
	var voters []int
	for i := 0; i < n; i++ {
		id := r.Range(1, 30)
		for idsUsed[id] {
			id = r.Range(1, 30)
		}
		idsUsed[id] = true
		st := stores[i%len(stores)] + 1
		if g.bad && r.Bool(1, 6) {
			st = 99 // unknown store
		}
		role := "v"
		if r.Bool(1, 4) {
			role = "l"
		} else {
			voters = append(voters, id)
		}
		g.w.run(g.t, fmt.Sprintf("peer %d %d %s", id, st, role))
	}
	g.hist[fmt.Sprintf("peers:%d", n)]++
	g.nv, g.nl = len(voters), n-len(voters)
	switch {
	case len(voters) > 0 && r.Bool(9, 10):
		g.w.run(g.t, fmt.Sprintf("leader %d", voters[r.Intn(len(voters))]))
	case r.Bool(1, 2) && g.bad:
		g.w.run(g.t, fmt.Sprintf("leader %d", r.Range(1, 30))) // maybe a learner, maybe nobody
	}
}

func (g *gen) rules() {
	r := g.r
	g.w.run(g.t, "newrules")
	if r.Bool(1, 5) && g.nv > 0 {
		// rules made to measure for the current region (so that satisfied fits are not rare)
		loc := []string{"-", "zone", "zone,host"}[r.Intn(3)]
		if g.nv >= 2 && r.Bool(1, 2) {
			g.w.run(g.t, fmt.Sprintf("rule leader 1 - %s", loc))
			g.w.run(g.t, fmt.Sprintf("rule follower %d - %s", g.nv-1, loc))
		} else {
			g.w.run(g.t, fmt.Sprintf("rule voter %d - %s", g.nv, loc))
		}
		if g.nl > 0 {
			g.w.run(g.t, fmt.Sprintf("rule learner %d - -", g.nl))
		}
		g.hist["rules:fitted"]++
		return
	}
	n := r.Pick(1, 10, 10, 6, 4)
	for i := 0; i < n; i++ {
		g.w.run(g.t, g.rule())
	}
	g.hist[fmt.Sprintf("rules:%d", n)]++
}

func (g *gen) sequence(maxFits int) {
	r := g.r
	g.w.run(g.t, "reset")
	g.nStore = r.Range(3, 10)
	for i := 1; i <= g.nStore; i++ {
		g.w.run(g.t, fmt.Sprintf("store %d %s", i, g.storeLabels()))
	}
	g.region()
	g.rules()
	nf := 0
	for k := r.Range(2, maxFits); k > 0; k-- {
		switch r.Pick(5, 3, 3) {
		case 0:
			g.region()
		case 1:
			g.rules()
		case 2:
			if len(g.w.rules) < 4 {
				g.w.run(g.t, g.rule())
			}
		}
		g.w.run(g.t, "fit")
		nf++
		if nf >= 2 && r.Bool(1, 2) {
			g.w.run(g.t, fmt.Sprintf("cmp %d %d", r.Intn(nf), r.Intn(nf)))
		}
	}
	for k := 0; k < 3; k++ {
		g.w.run(g.t, fmt.Sprintf("cmp %d %d", r.Intn(nf), r.Intn(nf)))
	}
}

// ---------------------------------------------------------------------------------------------
// exhaustive small domain: 3 stores x label layouts, every placement of <= 3 peers (voter/learner,
// leader choice), every rule of a 168-rule grammar and every pair of a 20-rule grammar (400 pairs).

var exhLayouts = []string{"zone=z1", "zone=z2", "zone=z1,$x=1", "-"}

func exhRules(small bool) []string {
	var out []string
	roles := []string{"voter", "leader", "follower", "learner"}
	counts := []int{1, 2, 3}
	cons := []string{"-", "zone:in:z1", "zone:notIn:z1", "$x:exists:", "zone:notExists:", "zone:in:z1|", "zone:notIn:|z2"}
	locs := []string{"-", "zone"}
	if small {
		counts = []int{1, 2}
		cons = []string{"-", "zone:in:z1", "$x:exists:"}
		locs = []string{"zone"}
		// 4 roles x 2 counts x 3 constraints = 24; drop leader count 2 -> 21; keep 20
	}
	for _, ro := range roles {
		for _, c := range counts {
			if small && ro == "leader" && c == 2 {
				continue
			}
			for _, cs := range cons {
				for _, l := range locs {
					out = append(out, fmt.Sprintf("rule %s %d %s %s", ro, c, cs, l))
				}
			}
		}
	}
	if small {
		out = out[:20]
	}
	return out
}

// exhaustive runs the slice `part` of `parts` of the small domain (keep: 1 in `sample` worlds, chosen by the PRNG).
func exhaustive(w *world, t *trace.W, r *rng.R, part, parts, sample int) {
	single, pair := exhRules(false), exhRules(true)
	n := 0
	for l0 := range exhLayouts {
		for l1 := range exhLayouts {
			for l2 := range exhLayouts {
				// peers: per store 0 = none, 1 = voter, 2 = learner
				for pc := 1; pc < 27; pc++ {
					roles := []int{pc % 3, pc / 3 % 3, pc / 9}
					var voters []int
					for s, x := range roles {
						if x == 1 {
							voters = append(voters, s)
						}
					}
					leaders := append([]int{-1}, voters...)
					for _, ld := range leaders {
						n++
						if n%parts != part || (sample > 1 && r.Intn(sample) != 0) {
							continue
						}
						w.run(t, "reset")
						for s, l := range []int{l0, l1, l2} {
							w.run(t, fmt.Sprintf("store %d %s", s+1, exhLayouts[l]))
						}
						for s, x := range roles {
							if x != 0 {
								w.run(t, fmt.Sprintf("peer %d %d %s", 10+s, s+1, []string{"", "v", "l"}[x]))
							}
						}
						if ld >= 0 {
							w.run(t, fmt.Sprintf("leader %d", 10+ld))
						}
						for _, a := range single {
							w.run(t, "newrules")
							w.run(t, a)
							w.run(t, "fit")
						}
						for _, a := range pair {
							for _, b := range pair {
								w.run(t, "newrules")
								w.run(t, a)
								w.run(t, b)
								w.run(t, "fit")
							}
						}
					}
				}
			}
		}
	}
}

func main() {
	out := flag.String("out", "-", "trace file")
	replay := flag.String("replay", "", "ops file to replay instead of generating")
	n := flag.Int("n", 300, "number of generated sequences")
	maxFits := flag.Int("fits", 8, "max fits per sequence")
	stream := flag.Uint64("stream", 0, "PRNG stream")
	exh := flag.Int("exh", 0, "exhaustive small domain: number of parts (this stream runs part stream%parts); 0 = off")
	sample := flag.Int("sample", 1, "with -exh: keep one world in `sample`")
	flag.Parse()

	w := &world{}
	t := trace.Create(*out)
	defer t.Close()
	if *replay != "" {
		for _, op := range trace.ReadOps(*replay) {
			w.run(t, op)
		}
		return
	}
	r := rng.FromEnv(*stream)
	g := &gen{r: r, w: w, t: t, hist: map[string]int{}}
	for s := 0; s < *n; s++ {
		g.bad = s%5 == 4 // every fifth sequence comes from the malformed stream
		g.sequence(*maxFits)
	}
	if *exh > 0 {
		exhaustive(w, t, r, int(*stream)%*exh, *exh, *sample)
	}
	var keys []string
	for k := range g.hist {
		keys = append(keys, k)
	}
	sort.Strings(keys)
	var hs []string
	for _, k := range keys {
		hs = append(hs, fmt.Sprintf("%s=%d", k, g.hist[k]))
	}
	t.Comment("distribution " + strings.Join(hs, " "))
}
