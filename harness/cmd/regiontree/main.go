// Command regiontree drives the real core.RegionsInfo / core.BasicCluster (server/core) and writes the
// `<op> => <observation>` trace judged by the Lean model (property C07).
package main

import (
	"bytes"
	"flag"
	"fmt"
	"sort"
	"strconv"
	"strings"

	"github.com/pingcap/kvproto/pkg/metapb"
	"github.com/tikv/pd/pkg/btree"
	"github.com/tikv/pd/server/core"

	_ "verifharness/internal/quiet"
	"verifharness/internal/regionh"
	"verifharness/internal/rng"
	"verifharness/internal/trace"
)

type world struct {
	bc       *core.BasicCluster
	panicked bool
	bt       *btree.BTree // pkg/btree on its own, against the ordered-list abstraction of the model
}

// bkey is a byte-string item ordered like region start keys
type bkey []byte

func (a bkey) Less(b btree.Item) bool { return bytes.Compare(a, b.(bkey)) < 0 }

func bstr(i btree.Item) string {
	if i == nil {
		return "nil"
	}
	return regionh.Key(i.(bkey))
}

func (w *world) btExec(f []string) string {
	n := func(s string) int { v, _ := strconv.Atoi(s); return v }
	if len(f) == 2 && f[0] == "new" {
		w.bt = btree.New(n(f[1]))
		return "ok"
	}
	if w.bt == nil {
		return "bad-op"
	}
	list := func(l []btree.Item) string {
		if len(l) == 0 {
			return "-"
		}
		var out []string
		for _, i := range l {
			out = append(out, bstr(i))
		}
		return strings.Join(out, ",")
	}
	switch {
	case len(f) == 2 && f[0] == "ins":
		return bstr(w.bt.ReplaceOrInsert(bkey(regionh.ParseKey(f[1]))))
	case len(f) == 2 && f[0] == "del":
		return bstr(w.bt.Delete(bkey(regionh.ParseKey(f[1]))))
	case len(f) == 2 && f[0] == "get":
		return bstr(w.bt.Get(bkey(regionh.ParseKey(f[1]))))
	case len(f) == 2 && f[0] == "at":
		return bstr(w.bt.GetAt(n(f[1])))
	case len(f) == 2 && f[0] == "idx":
		it, idx := w.bt.GetWithIndex(bkey(regionh.ParseKey(f[1])))
		return fmt.Sprintf("%s %d", bstr(it), idx)
	case len(f) == 3 && f[0] == "asc":
		var l []btree.Item
		w.bt.AscendGreaterOrEqual(bkey(regionh.ParseKey(f[1])), func(i btree.Item) bool {
			l = append(l, i)
			return len(l) < n(f[2])
		})
		return list(l)
	case len(f) == 3 && f[0] == "desc":
		var l []btree.Item
		w.bt.DescendLessOrEqual(bkey(regionh.ParseKey(f[1])), func(i btree.Item) bool {
			l = append(l, i)
			return len(l) < n(f[2])
		})
		return list(l)
	case len(f) == 1 && f[0] == "len":
		return strconv.Itoa(w.bt.Len())
	case len(f) == 1 && f[0] == "delmin":
		return bstr(w.bt.DeleteMin())
	case len(f) == 1 && f[0] == "delmax":
		return bstr(w.bt.DeleteMax())
	case len(f) == 1 && f[0] == "all":
		var l []btree.Item
		w.bt.Ascend(func(i btree.Item) bool { l = append(l, i); return true })
		return list(l)
	}
	return "bad-op"
}

func (w *world) reset() { w.bc = core.NewBasicCluster(); w.panicked = false }

var roles = []string{"leader", "follower", "learner", "pending"}

func parseRanges(s string) []core.KeyRange {
	if s == "none" {
		return nil
	}
	var out []core.KeyRange
	for _, p := range strings.Split(s, ";") {
		x := strings.Split(p, ":")
		out = append(out, core.KeyRange{StartKey: regionh.ParseKey(x[0]), EndKey: regionh.ParseKey(x[1])})
	}
	return out
}

func (w *world) randOne(role string, store uint64, ranges []core.KeyRange, viaCluster bool) *core.RegionInfo {
	ri := w.bc.Regions
	switch role {
	case "leader":
		if viaCluster {
			return w.bc.RandLeaderRegion(store, ranges)
		}
		return ri.RandLeaderRegion(store, ranges)
	case "follower":
		if viaCluster {
			return w.bc.RandFollowerRegion(store, ranges)
		}
		return ri.RandFollowerRegion(store, ranges)
	case "learner":
		if viaCluster {
			return w.bc.RandLearnerRegion(store, ranges)
		}
		return ri.RandLearnerRegion(store, ranges)
	default:
		if viaCluster {
			return w.bc.RandPendingRegion(store, ranges)
		}
		return ri.RandPendingRegion(store, ranges)
	}
}

func (w *world) safePick(role string, store uint64, ranges []core.KeyRange, viaCluster bool) (out string) {
	defer func() {
		if e := recover(); e != nil {
			w.panicked = true
			out = "panic"
		}
	}()
	r := w.randOne(role, store, ranges, viaCluster)
	if r == nil {
		return "nil"
	}
	if regionh.Render(r) != regionh.Render(w.bc.GetRegion(r.GetID())) {
		// the sub-tree handed out a RegionInfo that differs from the one currently served for this id
		return strconv.FormatUint(r.GetID(), 10) + "~stale"
	}
	return strconv.FormatUint(r.GetID(), 10)
}

func (w *world) dump() string {
	ri := w.bc.Regions
	var sb strings.Builder
	ids, sz := ri.VerifTreeIDs()
	fmt.Fprintf(&sb, "T=%s/%d", regionh.U64s(ids), sz)
	for _, role := range roles {
		m, sizes := ri.VerifSubTrees(role)
		fmt.Fprintf(&sb, " %s=", map[string]string{"leader": "L", "follower": "F", "learner": "R", "pending": "P"}[role])
		n := 0
		for _, st := range regionh.SortedStores(m) {
			if len(m[st]) == 0 {
				continue // an emptied tree is indistinguishable from a missing one for every reader
			}
			if n > 0 {
				sb.WriteString(";")
			}
			fmt.Fprintf(&sb, "%d:%s/%d", st, regionh.U64s(m[st]), sizes[st])
			n++
		}
		if n == 0 {
			sb.WriteString("-")
		}
	}
	return sb.String()
}

func (w *world) exec(op string) string {
	f := strings.Fields(op)
	u := func(s string) uint64 { n, _ := strconv.ParseUint(s, 10, 64); return n }
	bc := w.bc
	switch {
	case len(f) == 1 && f[0] == "reset":
		w.reset()
		return "ok"
	case len(f) >= 2 && f[0] == "bt":
		return w.btExec(f[1:])
	case len(f) == 11 && f[0] == "put":
		r := regionh.ParseSpec(f[1:]).Region()
		return "ov=" + regionh.IDs(bc.PutRegion(r))
	case len(f) == 2 && f[0] == "rm":
		// what RaftCluster.DropCacheRegion does
		if r := bc.GetRegion(u(f[1])); r != nil {
			bc.RemoveRegion(r)
			return "ok"
		}
		return "absent"
	case len(f) == 11 && f[0] == "rmstale":
		// RemoveRegion with an OLDER RegionInfo of a cached id (what DropCacheRegion does when a heartbeat lands
		// between its GetRegion and its RemoveRegion): afterwards the id must be gone from the map and from every
		// per-store listing
		sp := regionh.ParseSpec(f[1:])
		bc.RemoveRegion(sp.Region())
		var listed []string
		seen := map[uint64]bool{}
		for _, p := range append(append([]*metapb.Peer{}, sp.Peers...), sp.Pending...) {
			st := p.GetStoreId()
			if seen[st] {
				continue
			}
			seen[st] = true
			for _, r := range bc.GetStoreRegions(st) {
				if r.GetID() == sp.ID {
					listed = append(listed, strconv.FormatUint(st, 10))
					break
				}
			}
		}
		l := "-"
		if len(listed) > 0 {
			l = strings.Join(listed, ",")
		}
		return fmt.Sprintf("ok get=%s listed=%s", regionh.IDs([]*core.RegionInfo{bc.GetRegion(sp.ID)}), l)
	case len(f) == 11 && f[0] == "rmobj":
		// RemoveRegion with an arbitrary RegionInfo (malformed stream only)
		bc.RemoveRegion(regionh.ParseSpec(f[1:]).Region())
		return "ok"
	case len(f) == 2 && f[0] == "get":
		return regionh.Render(bc.GetRegion(u(f[1])))
	case len(f) == 2 && f[0] == "search":
		return regionh.Render(bc.SearchRegion(regionh.ParseKey(f[1])))
	case len(f) == 2 && f[0] == "searchprev":
		return regionh.Render(bc.SearchPrevRegion(regionh.ParseKey(f[1])))
	case len(f) == 4 && f[0] == "scan":
		lim, _ := strconv.Atoi(f[3])
		return regionh.IDs(bc.ScanRange(regionh.ParseKey(f[1]), regionh.ParseKey(f[2]), lim))
	case len(f) == 3 && f[0] == "ovl":
		q := &regionh.Spec{ID: 0, Start: regionh.ParseKey(f[1]), End: regionh.ParseKey(f[2])}
		return regionh.IDs(bc.GetOverlaps(q.Region()))
	case len(f) == 3 && f[0] == "adj":
		q := &regionh.Spec{ID: 0, Start: regionh.ParseKey(f[1]), End: regionh.ParseKey(f[2])}
		p, n := bc.GetAdjacentRegions(q.Region())
		return regionh.IDs([]*core.RegionInfo{p}) + "|" + regionh.IDs([]*core.RegionInfo{n})
	case len(f) == 1 && f[0] == "len":
		return fmt.Sprintf("%d %d %d", bc.Regions.Len(), bc.Regions.TreeLen(), bc.GetRegionCount())
	case len(f) == 2 && f[0] == "stats":
		st := u(f[1])
		ri := bc.Regions
		return fmt.Sprintf("c=%d,%d,%d,%d s=%d,%d,%d,%d rc=%d rs=%d bc=%d,%d,%d,%d,%d,%d",
			ri.GetStoreLeaderCount(st), ri.GetStoreFollowerCount(st), ri.GetStoreLearnerCount(st), ri.GetStorePendingPeerCount(st),
			ri.GetStoreLeaderRegionSize(st), ri.GetStoreFollowerRegionSize(st), ri.GetStoreLearnerRegionSize(st),
			ri.VerifSubTreeTotalSize("pending", st),
			ri.GetStoreRegionCount(st), ri.GetStoreRegionSize(st),
			bc.GetStoreLeaderCount(st), bc.GetStoreFollowerCount(st), bc.GetStorePendingPeerCount(st),
			bc.GetStoreRegionCount(st), bc.GetStoreLeaderRegionSize(st), bc.GetStoreRegionSize(st))
	case len(f) == 1 && f[0] == "total":
		return fmt.Sprintf("%d %d", bc.Regions.VerifTreeTotalSize(), bc.GetAverageRegionSize())
	case len(f) == 2 && f[0] == "sregions":
		// the returned objects themselves: id/size/version.confver (a stale RegionInfo kept by a sub-tree shows)
		rs := bc.GetStoreRegions(u(f[1]))
		if len(rs) == 0 {
			return "-"
		}
		var l []string
		for _, r := range rs {
			l = append(l, fmt.Sprintf("%d/%d/%d.%d", r.GetID(), r.GetApproximateSize(),
				r.GetRegionEpoch().GetVersion(), r.GetRegionEpoch().GetConfVer()))
		}
		return strings.Join(l, ",")
	case len(f) == 13 && f[0] == "bounce":
		// bounce <reads> <leaderB> <region spec with leader A>: a writer goroutine transfers the leadership of one
		// cached region back and forth between two of its voters (PutRegion) while this goroutine polls the
		// per-store region count / size of both stores; every value seen is reported
		reads, _ := strconv.Atoi(f[1])
		spA := regionh.ParseSpec(f[3:])
		spB := regionh.ParseSpec(f[3:])
		spB.Leader = u(f[2])
		rA, rB := spA.Region(), spB.Region()
		var stA, stB uint64
		for _, p := range spA.Peers {
			if p.Id == spA.Leader {
				stA = p.StoreId
			}
			if p.Id == spB.Leader {
				stB = p.StoreId
			}
		}
		bc.PutRegion(rA) // the region is cached before anybody polls (normally it already is)
		stop := make(chan struct{})
		done := make(chan struct{})
		go func() {
			defer close(done)
			for i := 0; ; i++ {
				select {
				case <-stop:
					bc.PutRegion(rB)
					bc.PutRegion(rA)
					return
				default:
				}
				if i%2 == 0 {
					bc.PutRegion(rB)
				} else {
					bc.PutRegion(rA)
				}
			}
		}()
		seen := [4]map[int64]bool{{}, {}, {}, {}}
		for i := 0; i < reads; i++ {
			seen[0][int64(bc.GetStoreRegionCount(stA))] = true
			seen[1][bc.GetStoreRegionSize(stA)] = true
			seen[2][int64(bc.GetStoreRegionCount(stB))] = true
			seen[3][bc.GetStoreRegionSize(stB)] = true
		}
		close(stop)
		<-done
		set := func(m map[int64]bool) string {
			var l []int64
			for v := range m {
				l = append(l, v)
			}
			sort.Slice(l, func(i, j int) bool { return l[i] < l[j] })
			var o []string
			for _, v := range l {
				o = append(o, strconv.FormatInt(v, 10))
			}
			return strings.Join(o, ",")
		}
		return fmt.Sprintf("stores=%d,%d count=%s size=%s count=%s size=%s", stA, stB, set(seen[0]), set(seen[1]), set(seen[2]), set(seen[3]))
	case len(f) == 1 && f[0] == "dump":
		return w.dump()
	case len(f) == 5 && f[0] == "rand":
		ranges := parseRanges(f[3])
		k, _ := strconv.Atoi(f[4])
		// a pick that panics is reported as the observation "panic" (the monitor flags it); a panic inside
		// BasicCluster.Rand*Region leaves its read lock held, so the structure is unusable afterwards
		var picks []string
		for j := 0; j < k && !w.panicked; j++ {
			picks = append(picks, w.safePick(f[1], u(f[2]), ranges, j%2 == 1))
		}
		return strings.Join(picks, ",")
	}
	return "bad-op"
}

func (w *world) run(t *trace.W, op string) (out string) {
	defer func() {
		if e := recover(); e != nil {
			// the structure is left half-updated: the sequence ends here (the generator resets)
			w.panicked = true
			out = "panic"
			t.Line(op, out)
		}
	}()
	if w.panicked && !strings.HasPrefix(op, "reset") {
		// after a panic (half-updated structure, possibly a lock left held) nothing more is executed until the
		// next reset; a replayed sequence records that
		out = "skipped-after-panic"
		t.Line(op, out)
		return out
	}
	out = w.exec(op)
	t.Line(op, out)
	return out
}

// ---------------------------------------------------------------------------------------------
// generator

type gen struct {
	w        *world
	t        *trace.W
	r        *rng.R
	mode     int // 0: 8 one-byte keys, 1: 10^6 three-byte keys, 2: variable-length keys over {00,01,ff}
	stores   int
	nextID   uint64
	nextPeer uint64
	reads    int  // polls per bounce op (0 = no bounce ops)
	bad      bool // malformed stream
	kinds    map[string]int
}

func (g *gen) key() []byte {
	switch g.mode {
	case 0:
		return []byte{byte(g.r.Range(1, 8))}
	case 1:
		n := g.r.Range(1, 1000000)
		return []byte{byte(n >> 16), byte(n >> 8), byte(n)}
	default:
		al := []byte{0x00, 0x01, 0xff}
		k := make([]byte, g.r.Range(1, 3))
		for i := range k {
			k[i] = al[g.r.Intn(3)]
		}
		return k
	}
}

func (g *gen) sorted() []*core.RegionInfo {
	rs := g.w.bc.GetRegions()
	sort.Slice(rs, func(i, j int) bool {
		c := bytes.Compare(rs[i].GetStartKey(), rs[j].GetStartKey())
		if c != 0 {
			return c < 0
		}
		return rs[i].GetID() < rs[j].GetID()
	})
	return rs
}

// boundary returns a key that is a boundary of a cached region, or a random key
func (g *gen) boundary() []byte {
	rs := g.sorted()
	if len(rs) > 0 && g.r.Bool(2, 3) {
		x := rs[g.r.Intn(len(rs))]
		if g.r.Bool(1, 2) {
			return x.GetStartKey()
		}
		return x.GetEndKey()
	}
	if g.r.Bool(1, 10) {
		return []byte{}
	}
	return g.key()
}

// rangeWF returns start < end, or end = "" (unbounded); start may be ""
func (g *gen) rangeWF() ([]byte, []byte) {
	for {
		a, b := g.boundary(), g.boundary()
		if g.r.Bool(1, 8) {
			a = []byte{}
		}
		if g.r.Bool(1, 8) {
			b = []byte{}
		}
		if len(b) == 0 {
			return a, b
		}
		c := bytes.Compare(a, b)
		if c < 0 {
			return a, b
		}
		if c > 0 && len(b) > 0 {
			return b, a
		}
	}
}

type pspec struct {
	id, store uint64
	learner   bool
}

type rspec struct {
	id, ver, conf, term, size, leader uint64
	start, end                        []byte
	peers                             []pspec
	pending                           []pspec
}

func (s *rspec) String() string {
	ps, pp := "-", "-"
	var l []string
	for _, p := range s.peers {
		role := "v"
		if p.learner {
			role = "l"
		}
		l = append(l, fmt.Sprintf("%d.%d.%s", p.id, p.store, role))
	}
	if len(l) > 0 {
		ps = strings.Join(l, ",")
	}
	l = nil
	for _, p := range s.pending {
		l = append(l, fmt.Sprintf("%d.%d", p.id, p.store))
	}
	if len(l) > 0 {
		pp = strings.Join(l, ",")
	}
	return fmt.Sprintf("%d %s %s %d %d %d %d %d %s %s", s.id, regionh.Key(s.start), regionh.Key(s.end),
		s.ver, s.conf, s.term, s.size, s.leader, ps, pp)
}

func specOf(r *core.RegionInfo) *rspec {
	s := &rspec{id: r.GetID(), ver: r.GetRegionEpoch().GetVersion(), conf: r.GetRegionEpoch().GetConfVer(),
		term: r.GetTerm(), size: uint64(r.GetApproximateSize()) << 20, leader: r.GetLeader().GetId(),
		start: r.GetStartKey(), end: r.GetEndKey()}
	for _, p := range r.GetPeers() {
		s.peers = append(s.peers, pspec{p.GetId(), p.GetStoreId(), core.IsLearner(p)})
	}
	for _, p := range r.GetPendingPeers() {
		s.pending = append(s.pending, pspec{p.GetId(), p.GetStoreId(), false})
	}
	return s
}

func (g *gen) size() uint64 {
	switch g.r.Intn(6) {
	case 0:
		return uint64(g.r.Intn(1 << 20)) // below 1 MB -> 1
	case 1:
		return uint64(g.r.Range(1, 4))<<20 + uint64(g.r.Intn(1<<20))
	default:
		return uint64(g.r.Range(1, 300)) << 20
	}
}

func (g *gen) freshPeers(s *rspec) {
	n := g.r.Range(1, imin(g.stores, 4))
	perm := g.perm(g.stores)
	s.peers = nil
	for i := 0; i < n; i++ {
		g.nextPeer++
		s.peers = append(s.peers, pspec{g.nextPeer, uint64(perm[i] + 1), g.r.Bool(1, 5)})
	}
	g.pickLeader(s)
	g.pickPending(s)
}

func (g *gen) perm(n int) []int {
	p := make([]int, n)
	for i := range p {
		p[i] = i
	}
	for i := n - 1; i > 0; i-- {
		j := g.r.Intn(i + 1)
		p[i], p[j] = p[j], p[i]
	}
	return p
}

func (g *gen) pickLeader(s *rspec) {
	var voters []pspec
	for _, p := range s.peers {
		if !p.learner {
			voters = append(voters, p)
		}
	}
	switch {
	case len(voters) > 0 && g.r.Bool(9, 10):
		s.leader = voters[g.r.Intn(len(voters))].id
	case g.r.Bool(1, 2):
		s.leader = 0
	default:
		s.leader = s.peers[g.r.Intn(len(s.peers))].id // possibly a learner
	}
}

func (g *gen) pickPending(s *rspec) {
	s.pending = nil
	for _, p := range s.peers {
		if g.r.Bool(1, 5) {
			s.pending = append(s.pending, pspec{p.id, p.store, false})
		}
	}
}

func (g *gen) changePeers(s *rspec) {
	used := map[uint64]bool{}
	for _, p := range s.peers {
		used[p.store] = true
	}
	free := func() uint64 {
		for _, i := range g.perm(g.stores) {
			if !used[uint64(i+1)] {
				return uint64(i + 1)
			}
		}
		return 0
	}
	switch g.r.Intn(7) {
	case 0: // leader only
		g.pickLeader(s)
	case 1: // pending only
		g.pickPending(s)
	case 2: // add a peer
		if st := free(); st != 0 {
			g.nextPeer++
			s.peers = append(s.peers, pspec{g.nextPeer, st, g.r.Bool(1, 2)})
		}
	case 3: // remove a peer
		if len(s.peers) > 1 {
			i := g.r.Intn(len(s.peers))
			gone := s.peers[i]
			s.peers = append(append([]pspec{}, s.peers[:i]...), s.peers[i+1:]...)
			if s.leader == gone.id {
				g.pickLeader(s)
			}
			var pp []pspec
			for _, p := range s.pending {
				if p.id != gone.id {
					pp = append(pp, p)
				}
			}
			s.pending = pp
		}
	case 4: // move a peer to another store (new peer id)
		if st := free(); st != 0 {
			i := g.r.Intn(len(s.peers))
			old := s.peers[i]
			g.nextPeer++
			s.peers[i] = pspec{g.nextPeer, st, old.learner}
			if s.leader == old.id {
				s.leader = g.nextPeer
			}
			g.pickPending(s)
		}
	case 5: // promote / demote
		i := g.r.Intn(len(s.peers))
		s.peers[i].learner = !s.peers[i].learner
		if s.leader == s.peers[i].id && g.r.Bool(1, 2) {
			g.pickLeader(s)
		}
	default: // everything new
		g.freshPeers(s)
	}
	s.conf++
}

// spoil makes a region spec malformed in one of several ways
func (g *gen) spoil(s *rspec) {
	switch g.r.Intn(7) {
	case 0: // inverted range
		if len(s.end) > 0 && len(s.start) > 0 {
			s.start, s.end = s.end, s.start
		}
	case 1: // empty range
		if len(s.start) > 0 {
			s.end = s.start
		}
	case 2: // two peers on one store
		if len(s.peers) > 0 {
			g.nextPeer++
			s.peers = append(s.peers, pspec{g.nextPeer, s.peers[0].store, g.r.Bool(1, 2)})
		}
	case 3: // pending peer on a store without peer
		g.nextPeer++
		s.pending = append(s.pending, pspec{g.nextPeer, uint64(g.stores + 1), false})
	case 4: // duplicate peer id
		if len(s.peers) > 1 {
			s.peers[1].id = s.peers[0].id
		}
	case 5: // peer id 0
		if len(s.peers) > 0 {
			s.peers[0].id = 0
		}
	default: // duplicate pending entry
		if len(s.pending) > 0 {
			s.pending = append(s.pending, s.pending[0])
		}
	}
}

func (g *gen) put(kind string, s *rspec) {
	if g.bad && g.r.Bool(1, 3) {
		g.spoil(s)
		kind += "+malformed"
	}
	g.kinds[kind]++
	out := g.w.run(g.t, "put "+s.String())
	if out != "ov=-" {
		g.kinds["put-with-overlaps"]++
		if strings.Count(out, ",") >= 1 {
			g.kinds["put-swallowing-several"]++
		}
	}
}

func (g *gen) mutate() {
	rs := g.sorted()
	pick := func() *core.RegionInfo { return rs[g.r.Intn(len(rs))] }
	k := g.r.Pick(18, 10, 12, 14, 10, 8, 8, 5, 7, 1)
	if len(rs) == 0 {
		k = 0
	}
	switch k {
	case 0: // new id, random range
		g.nextID++
		s := &rspec{id: g.nextID, ver: uint64(g.r.Range(1, 5)), conf: uint64(g.r.Range(1, 5)), term: uint64(g.r.Intn(4)), size: g.size()}
		s.start, s.end = g.rangeWF()
		g.freshPeers(s)
		g.put("new-id", s)
	case 1: // fill a gap exactly (or the space before the first / after the last region)
		g.nextID++
		s := &rspec{id: g.nextID, ver: 1, conf: 1, size: g.size()}
		i := g.r.Intn(len(rs) + 1)
		if i == 0 {
			s.start, s.end = []byte{}, rs[0].GetStartKey()
		} else if i == len(rs) {
			s.start, s.end = rs[i-1].GetEndKey(), []byte{}
		} else {
			s.start, s.end = rs[i-1].GetEndKey(), rs[i].GetStartKey()
		}
		if (len(s.end) > 0 && bytes.Compare(s.start, s.end) >= 0) || (i > 0 && len(s.start) == 0) {
			s.start, s.end = g.rangeWF()
		}
		g.freshPeers(s)
		g.put("gap-fill", s)
	case 2: // same range, same peers, other size
		s := specOf(pick())
		s.size = g.size()
		g.put("same-range-size", s)
	case 3: // same range, peers / leader / pending change
		s := specOf(pick())
		g.changePeers(s)
		if g.r.Bool(1, 3) {
			s.size = g.size()
		}
		g.put("same-range-peers", s)
	case 4: // same id, other range
		s := specOf(pick())
		switch g.r.Intn(3) {
		case 0:
			s.start, s.end = g.rangeWF()
		case 1: // grow to the right over the neighbours
			s.end = g.boundary()
			if len(s.end) > 0 && bytes.Compare(s.start, s.end) >= 0 {
				s.end = []byte{}
			}
		default: // move the start
			s.start = g.boundary()
			if len(s.end) > 0 && bytes.Compare(s.start, s.end) >= 0 {
				s.start = []byte{}
			}
		}
		s.ver++
		if g.r.Bool(1, 3) {
			g.changePeers(s)
		}
		g.put("changed-range", s)
	case 5: // split: left half keeps the id, right half gets a new id (either half may be reported first)
		o := pick()
		m := g.key()
		inside := bytes.Compare(o.GetStartKey(), m) < 0 && (len(o.GetEndKey()) == 0 || bytes.Compare(m, o.GetEndKey()) < 0)
		if !inside {
			g.kinds["split-skipped"]++
			return
		}
		l, r := specOf(o), specOf(o)
		l.end, r.start = m, m
		l.ver++
		r.ver++
		g.nextID++
		r.id = g.nextID
		for i := range r.peers {
			g.nextPeer++
			if r.leader == r.peers[i].id {
				r.leader = g.nextPeer
			}
			for j := range r.pending {
				if r.pending[j].id == r.peers[i].id {
					r.pending[j].id = g.nextPeer
				}
			}
			r.peers[i].id = g.nextPeer
		}
		if g.r.Bool(1, 2) {
			g.put("split-left", l)
			g.put("split-right", r)
		} else {
			g.put("split-right", r)
			g.put("split-left", l)
		}
	case 6: // merge with 1-3 right neighbours
		i := g.r.Intn(len(rs))
		j := imin(len(rs)-1, i+g.r.Range(1, 3))
		s := specOf(rs[i])
		s.end = rs[j].GetEndKey()
		if len(s.end) > 0 && bytes.Compare(s.start, s.end) >= 0 {
			s.end = []byte{}
		}
		s.ver += 2
		g.put("merge", s)
	case 7: // new id over everything between two boundaries
		g.nextID++
		s := &rspec{id: g.nextID, ver: 9, conf: 1, size: g.size()}
		i := g.r.Intn(len(rs))
		j := imin(len(rs)-1, i+g.r.Range(1, 4))
		s.start, s.end = rs[i].GetStartKey(), rs[j].GetEndKey()
		if len(s.end) > 0 && bytes.Compare(s.start, s.end) >= 0 {
			s.end = []byte{}
		}
		g.freshPeers(s)
		g.put("swallow", s)
	case 8:
		g.kinds["rm"]++
		g.w.run(g.t, fmt.Sprintf("rm %d", pick().GetID()))
	default:
		g.kinds["rm-absent"]++
		g.w.run(g.t, fmt.Sprintf("rm %d", g.nextID+100))
	}
	if g.bad && len(rs) > 0 && g.r.Bool(1, 12) {
		// RemoveRegion with an object that is not the cached one
		s := specOf(pick())
		s.size = g.size()
		if g.r.Bool(1, 2) {
			s.start = g.boundary()
		}
		g.kinds["rmobj+malformed"]++
		g.w.run(g.t, "rmobj "+s.String())
	}
}

// removeStale: "get; put with the leader moved (and possibly other pending peers); remove with the OLD object",
// then look at every store of the region
func (g *gen) removeStale() {
	for _, r := range g.sorted() {
		old := specOf(r)
		var voters []pspec
		for _, p := range old.peers {
			if !p.learner {
				voters = append(voters, p)
			}
		}
		leaderIsVoter := false
		for _, p := range voters {
			if p.id == old.leader {
				leaderIsVoter = true
			}
		}
		if len(voters) < 2 || !leaderIsVoter || !g.r.Bool(1, 2) {
			continue
		}
		cur := specOf(r)
		for _, p := range voters {
			if p.id != old.leader {
				cur.leader = p.id
			}
		}
		if g.r.Bool(1, 3) {
			g.pickPending(cur)
		}
		cur.conf++
		g.kinds["remove-stale"]++
		g.w.run(g.t, "put "+cur.String())
		g.w.run(g.t, "rmstale "+old.String())
		for _, p := range old.peers {
			g.w.run(g.t, fmt.Sprintf("stats %d", p.store))
			g.w.run(g.t, fmt.Sprintf("sregions %d", p.store))
			g.w.run(g.t, fmt.Sprintf("rand %s %d none 4", roles[g.r.Intn(4)], p.store))
		}
		g.w.run(g.t, "len")
		g.w.run(g.t, "dump")
		return
	}
}

// bounce: leadership of a cached region with two voters goes back and forth while the store counters are polled
func (g *gen) bounce() {
	for _, r := range g.sorted() {
		var voters []pspec
		sp := specOf(r)
		for _, p := range sp.peers {
			if !p.learner {
				voters = append(voters, p)
			}
		}
		var other uint64
		for _, p := range voters {
			if p.id != sp.leader {
				other = p.id
			}
		}
		isVoterLeader := false
		for _, p := range voters {
			if p.id == sp.leader {
				isVoterLeader = true
			}
		}
		if len(voters) < 2 || !isVoterLeader || other == 0 || !g.r.Bool(1, 2) {
			continue
		}
		g.kinds["bounce"]++
		g.w.run(g.t, fmt.Sprintf("bounce %d %d %s", g.reads, other, sp.String()))
		return
	}
}

func (g *gen) ranges() string {
	n := g.r.Pick(3, 5, 2)
	if n == 0 {
		return "none"
	}
	var l []string
	for i := 0; i < n; i++ {
		a, b := g.boundary(), g.boundary()
		if g.r.Bool(1, 4) {
			a = []byte{}
		}
		if g.r.Bool(1, 4) {
			b = []byte{}
		}
		if len(b) > 0 && bytes.Compare(a, b) > 0 && g.r.Bool(9, 10) {
			a, b = b, a
		}
		l = append(l, regionh.Key(a)+":"+regionh.Key(b))
	}
	return strings.Join(l, ";")
}

func (g *gen) query() {
	rs := g.sorted()
	var op string
	switch g.r.Pick(8, 14, 10, 12, 10, 12, 4, 10, 4, 4, 12) {
	case 0:
		id := uint64(g.r.Range(1, int(g.nextID)+1))
		if len(rs) > 0 && g.r.Bool(2, 3) {
			id = rs[g.r.Intn(len(rs))].GetID()
		}
		op = fmt.Sprintf("get %d", id)
	case 1:
		op = "search " + regionh.Key(g.boundary())
	case 2:
		op = "searchprev " + regionh.Key(g.boundary())
	case 3:
		a, b := g.boundary(), g.boundary()
		if len(b) > 0 && bytes.Compare(a, b) > 0 && g.r.Bool(4, 5) {
			a, b = b, a
		}
		op = fmt.Sprintf("scan %s %s %d", regionh.Key(a), regionh.Key(b), []int{0, 0, -1, 1, 2, 3, 5, 100}[g.r.Intn(8)])
	case 4:
		a, b := g.rangeWF()
		if g.bad && g.r.Bool(1, 4) {
			a, b = g.boundary(), g.boundary()
		}
		op = fmt.Sprintf("ovl %s %s", regionh.Key(a), regionh.Key(b))
	case 5:
		if len(rs) > 0 && g.r.Bool(3, 4) {
			x := rs[g.r.Intn(len(rs))]
			op = fmt.Sprintf("adj %s %s", regionh.Key(x.GetStartKey()), regionh.Key(x.GetEndKey()))
		} else {
			op = fmt.Sprintf("adj %s %s", regionh.Key(g.boundary()), regionh.Key(g.boundary()))
		}
	case 6:
		op = "len"
	case 7:
		op = fmt.Sprintf("stats %d", g.r.Range(1, g.stores+1))
	case 8:
		op = "total"
	case 9:
		op = fmt.Sprintf("sregions %d", g.r.Range(1, g.stores+1))
	default:
		k := 4
		if g.r.Bool(1, 4) {
			k = 200 // enough draws for the completeness check of the monitor (small sub-trees only)
		}
		op = fmt.Sprintf("rand %s %d %s %d", roles[g.r.Intn(4)], g.r.Range(1, g.stores+1), g.ranges(), k)
	}
	g.kinds[strings.Fields(op)[0]]++
	g.w.run(g.t, op)
}

// bulkSequence: grow - shrink - grow on one RegionsInfo with several hundred regions, so that the main tree
// and the per-store sub-trees (btree degree 64: at most 127 items per node) split, collapse and split again
// (freed btree nodes are re-used).  After each phase: lookups, counters, and random picks restricted to the
// range of single cached regions (exactly one candidate each).
func (g *gen) bulkSequence() {
	g.w.run(g.t, "reset")
	g.kinds["bulk-grow-shrink-grow"]++
	g.mode = 1
	g.stores = g.r.Range(2, 4)
	g.nextID, g.nextPeer = 0, 0
	n := g.r.Range(280, 440)
	step := 1000000 / (n + 2)
	key := func(i int) []byte {
		if i <= 0 {
			return []byte{}
		}
		v := i * step
		return []byte{byte(v >> 16), byte(v >> 8), byte(v)}
	}
	// region i covers [key(i), key(i+1)); the last one is unbounded
	spec := func(i int, ver uint64) *rspec {
		s := &rspec{id: uint64(i + 1), ver: ver, conf: 1, term: 1, size: g.size(), start: key(i), end: key(i + 1)}
		if i == n-1 {
			s.end = []byte{}
		}
		// every store holds a peer of every region: each leader/follower tree gets a large share
		first := g.r.Intn(g.stores)
		for k := 0; k < g.stores; k++ {
			g.nextPeer++
			st := uint64((first+k)%g.stores + 1)
			s.peers = append(s.peers, pspec{g.nextPeer, st, k == g.stores-1 && g.stores > 2 && g.r.Bool(1, 3)})
		}
		if g.r.Bool(1, 3) { // one store leads everything in a third of the sequences' regions
			s.leader = s.peers[0].id
		} else {
			g.pickLeader(s)
		}
		if g.r.Bool(1, 4) {
			g.pickPending(s)
		}
		return s
	}
	present := map[int]bool{}
	probe := func(phase string) {
		g.kinds["bulk-probe-"+phase]++
		var ids []int
		for i := range present {
			ids = append(ids, i)
		}
		sort.Ints(ids)
		g.w.run(g.t, "len")
		g.w.run(g.t, "total")
		for st := 1; st <= g.stores; st++ {
			g.w.run(g.t, fmt.Sprintf("stats %d", st))
		}
		for q := 0; q < 40 && len(ids) > 0 && !g.w.panicked; q++ {
			i := ids[g.r.Intn(len(ids))]
			rg := regionh.Key(key(i)) + ":" + regionh.Key(key(i+1))
			if i == n-1 {
				rg = regionh.Key(key(i)) + ":_"
			}
			g.w.run(g.t, fmt.Sprintf("rand %s %d %s 2", roles[g.r.Intn(4)], g.r.Range(1, g.stores), rg))
			if g.w.panicked {
				return
			}
			switch g.r.Intn(4) {
			case 0:
				g.w.run(g.t, "search "+regionh.Key(key(i)))
			case 1:
				g.w.run(g.t, "searchprev "+regionh.Key(key(i)))
			case 2:
				g.w.run(g.t, fmt.Sprintf("scan %s %s %d", regionh.Key(key(i)), regionh.Key(key(i+3)), 5))
			default:
				// a wider range: several candidates, four draws
				j := i + g.r.Range(2, 30)
				g.w.run(g.t, fmt.Sprintf("rand %s %d %s:%s 4", roles[g.r.Intn(4)], g.r.Range(1, g.stores),
					regionh.Key(key(i)), regionh.Key(key(j))))
			}
		}
	}
	order := func(lo, hi int) []int { // ascending, descending or shuffled
		var l []int
		for i := lo; i < hi; i++ {
			l = append(l, i)
		}
		switch g.r.Intn(3) {
		case 1:
			for a, b := 0, len(l)-1; a < b; a, b = a+1, b-1 {
				l[a], l[b] = l[b], l[a]
			}
		case 2:
			for a := len(l) - 1; a > 0; a-- {
				b := g.r.Intn(a + 1)
				l[a], l[b] = l[b], l[a]
			}
		}
		return l
	}
	// grow
	for _, i := range order(0, n) {
		g.w.run(g.t, "put "+spec(i, 1).String())
		present[i] = true
		if g.w.panicked {
			return
		}
	}
	probe("grown")
	if g.w.panicked {
		return
	}
	// shrink: keep a block (or a random subset) of 20-70 regions
	keep := map[int]bool{}
	nk := g.r.Range(20, 70)
	if g.r.Bool(2, 3) {
		lo := g.r.Intn(n - nk)
		for i := lo; i < lo+nk; i++ {
			keep[i] = true
		}
	} else {
		for len(keep) < nk {
			keep[g.r.Intn(n)] = true
		}
	}
	for _, i := range order(0, n) {
		if keep[i] {
			continue
		}
		g.w.run(g.t, fmt.Sprintf("rm %d", i+1))
		delete(present, i)
		if g.w.panicked {
			return
		}
	}
	probe("shrunk")
	if g.w.panicked {
		return
	}
	// grow again (same ranges, new epochs and peers)
	for _, i := range order(0, n) {
		if present[i] {
			continue
		}
		g.w.run(g.t, "put "+spec(i, 2).String())
		present[i] = true
		if g.w.panicked {
			return
		}
	}
	probe("regrown")
	if g.w.panicked {
		return
	}
	g.w.run(g.t, "dump")
}

// btSequence exercises pkg/btree alone: the calls regionTree makes, at small and large degrees
func (g *gen) btSequence(maxOps int) {
	g.w.run(g.t, "reset")
	g.mode = g.r.Pick(3, 1, 2)
	deg := []int{2, 2, 3, 4, 64}[g.r.Intn(5)]
	g.w.run(g.t, fmt.Sprintf("bt new %d", deg))
	g.kinds[fmt.Sprintf("btree-degree-%d", deg)]++
	var keys [][]byte
	some := func() []byte {
		if len(keys) > 0 && g.r.Bool(2, 3) {
			return keys[g.r.Intn(len(keys))]
		}
		if g.r.Bool(1, 12) {
			return []byte{}
		}
		return g.key()
	}
	n := g.r.Range(4*maxOps, 12*maxOps)
	for i := 0; i < n; i++ {
		var op string
		switch g.r.Pick(34, 14, 6, 8, 8, 8, 8, 3, 2, 2, 2) {
		case 0:
			k := g.key()
			if g.r.Bool(1, 6) {
				k = some()
			}
			keys = append(keys, k)
			op = "bt ins " + regionh.Key(k)
		case 1:
			op = "bt del " + regionh.Key(some())
		case 2:
			op = "bt get " + regionh.Key(some())
		case 3:
			op = fmt.Sprintf("bt at %d", g.r.Range(-1, len(keys)+1))
		case 4:
			op = "bt idx " + regionh.Key(some())
		case 5:
			op = fmt.Sprintf("bt asc %s %d", regionh.Key(some()), g.r.Range(1, 6))
		case 6:
			op = fmt.Sprintf("bt desc %s %d", regionh.Key(some()), g.r.Range(1, 6))
		case 7:
			op = "bt len"
		case 8:
			op = "bt delmin"
		case 9:
			op = "bt delmax"
		default:
			op = "bt all"
		}
		g.w.run(g.t, op)
	}
	g.w.run(g.t, "bt all")
}

func (g *gen) sequence(maxOps int) {
	g.w.run(g.t, "reset")
	g.mode = g.r.Pick(4, 4, 2)
	g.stores = g.r.Range(3, 6)
	g.nextID, g.nextPeer = 0, 0
	g.kinds[fmt.Sprintf("keyspace-%d", g.mode)]++
	n := g.r.Range(maxOps/3, maxOps)
	for i := 0; i < n; i++ {
		g.mutate()
		if g.w.panicked {
			g.kinds["panic"]++
			return
		}
		for q, nq := 0, g.r.Range(1, 4); q < nq; q++ {
			g.query()
		}
		if !g.bad && g.reads > 0 && g.r.Bool(1, 70) {
			g.bounce()
		}
		if !g.bad && g.r.Bool(1, 40) {
			g.removeStale()
		}
		if g.r.Bool(1, 6) {
			g.w.run(g.t, "dump")
			g.w.run(g.t, "len")
			g.w.run(g.t, "total")
			for st := 1; st <= g.stores+1; st++ {
				g.w.run(g.t, fmt.Sprintf("stats %d", st))
			}
		}
	}
	g.w.run(g.t, "dump")
	g.w.run(g.t, "len")
}

func main() {
	out := flag.String("out", "-", "trace file")
	replay := flag.String("replay", "", "ops file to replay instead of generating")
	n := flag.Int("n", 20, "number of generated sequences")
	maxOps := flag.Int("len", 120, "max mutations per sequence")
	bad := flag.Int("malformed", 5, "one sequence in this many uses the malformed stream (0 = never)")
	stream := flag.Uint64("stream", 0, "PRNG stream")
	reads := flag.Int("bounce", 1500, "reads per concurrent leader-bounce op (0 = none)")
	bulk := flag.Int("bulk", 0, "one sequence in this many is a grow-shrink-grow history with several hundred regions (0 = never)")
	flag.Parse()

	w := &world{}
	w.reset()
	t := trace.Create(*out)
	defer t.Close()
	if *replay != "" {
		for _, op := range trace.ReadOps(*replay) {
			w.run(t, op)
		}
		return
	}
	g := &gen{w: w, t: t, r: rng.FromEnv(*stream), kinds: map[string]int{}, reads: *reads}
	for s := 0; s < *n; s++ {
		g.bad = *bad > 0 && s%*bad == *bad-1
		if g.bad {
			t.Comment("malformed stream")
		}
		if s%8 == 6 {
			g.btSequence(*maxOps)
			continue
		}
		if *bulk > 0 && s%*bulk == 1 {
			g.bulkSequence()
			continue
		}
		g.sequence(*maxOps)
	}
	var ks []string
	for k := range g.kinds {
		ks = append(ks, k)
	}
	sort.Strings(ks)
	var sb strings.Builder
	for _, k := range ks {
		fmt.Fprintf(&sb, " %s=%d", k, g.kinds[k])
	}
	t.Comment("distribution:" + sb.String())
}

func imin(a, b int) int {
	if a < b {
		return a
	}
	return b
}
