package main

// The outermost entry of the heartbeat path: Server.RegionHeartbeat of an in-process PD server (embedded etcd,
// leader, bootstrapped) fed through in-memory implementations of the gRPC server stream.  What is observed here
// is the ANSWER: a refused heartbeat must be answered with an error on the stream it came from.

import (
	"context"
	"fmt"
	"io"
	"strings"
	"sync"
	"time"

	"github.com/pingcap/kvproto/pkg/metapb"
	"github.com/pingcap/kvproto/pkg/pdpb"
	"google.golang.org/grpc/metadata"

	"verifharness/internal/regionh"
	"verifharness/internal/storecfg"
)

type fakeStream struct {
	name   string
	ctx    context.Context
	cancel context.CancelFunc
	reqs   chan *pdpb.RegionHeartbeatRequest
	idle   chan struct{} // one token every time the server comes back to Recv
	mu     sync.Mutex
	errs   []string // error answers received on this stream
}

func (f *fakeStream) Send(m *pdpb.RegionHeartbeatResponse) error {
	if e := m.GetHeader().GetError(); e != nil {
		f.mu.Lock()
		f.errs = append(f.errs, e.GetMessage())
		f.mu.Unlock()
	}
	return nil
}

func (f *fakeStream) Recv() (*pdpb.RegionHeartbeatRequest, error) {
	select {
	case f.idle <- struct{}{}:
	default:
	}
	select {
	case r := <-f.reqs:
		return r, nil
	case <-f.ctx.Done():
		return nil, io.EOF
	}
}

func (f *fakeStream) SetHeader(metadata.MD) error  { return nil }
func (f *fakeStream) SendHeader(metadata.MD) error { return nil }
func (f *fakeStream) SetTrailer(metadata.MD)       {}
func (f *fakeStream) Context() context.Context     { return f.ctx }
func (f *fakeStream) SendMsg(interface{}) error    { return nil }
func (f *fakeStream) RecvMsg(interface{}) error    { return nil }

func (f *fakeStream) takeErrs() int {
	f.mu.Lock()
	defer f.mu.Unlock()
	n := len(f.errs)
	f.errs = nil
	return n
}

type grpcWorld struct {
	srv     *storecfg.Server
	streams map[string]*fakeStream
	order   []string
}

// stopGRPC: at the end of the process the server is abandoned (only its data directory goes); when more work follows
// it is shut down properly – an abandoned embedded etcd exits the process (FATAL "failed to purge snap file") when
// its purge loop next runs, about 30 s later.
func (w *world) stopGRPC(final bool) {
	if w.g == nil {
		return
	}
	for _, s := range w.g.streams {
		s.cancel()
	}
	if final {
		w.g.srv.Abandon()
		w.g.srv.Cancel()
	} else {
		w.g.srv.Stop()
	}
	w.g = nil
}

func (w *world) servedGRPC() string {
	rc := w.g.srv.Svr.GetRaftCluster()
	rs := rc.ScanRegions([]byte(""), []byte(""), 0)
	if len(rs) == 0 {
		return "-"
	}
	l := make([]string, 0, len(rs))
	for _, r := range rs {
		l = append(l, regionh.Render(r))
	}
	return strings.Join(l, ";")
}

func (w *world) grpcExec(f []string) string {
	switch {
	case len(f) == 2 && f[0] == "reset" && f[1] == "grpc":
		w.reset(false)
		w.stopGRPC(false)
		srv := storecfg.StartServer(true) // store 1, region 2 = the whole key space with peer 3 on store 1
		renderingLogger(currentLogLevel)
		w.g = &grpcWorld{srv: srv, streams: map[string]*fakeStream{}}
		ctx, cancel := context.WithTimeout(context.Background(), 20*time.Second)
		defer cancel()
		for _, st := range []uint64{2, 3} {
			resp, err := srv.Svr.PutStore(ctx, &pdpb.PutStoreRequest{Header: srv.Header(),
				Store: &metapb.Store{Id: st, Address: fmt.Sprintf("mock://tikv-%d", st), Version: "5.0.0"}})
			if err != nil || resp.GetHeader().GetError() != nil {
				panic(fmt.Sprint("PutStore: ", err, resp.GetHeader().GetError()))
			}
		}
		return "ok S=" + w.servedGRPC()
	case w.g == nil:
		return "bad-op"
	case len(f) == 2 && f[0] == "sopen":
		if w.g.streams[f[1]] != nil {
			return "bad-op"
		}
		ctx, cancel := context.WithCancel(context.Background())
		s := &fakeStream{name: f[1], ctx: ctx, cancel: cancel, reqs: make(chan *pdpb.RegionHeartbeatRequest),
			idle: make(chan struct{}, 1)}
		w.g.streams[f[1]] = s
		w.g.order = append(w.g.order, f[1])
		go func() { _ = w.g.srv.Svr.RegionHeartbeat(s) }()
		select {
		case <-s.idle:
		case <-time.After(20 * time.Second):
			panic("sopen: the server never read from the stream")
		}
		return "ok"
	case len(f) == 2 && f[0] == "sclose":
		s := w.g.streams[f[1]]
		if s == nil {
			return "bad-op"
		}
		s.cancel()
		delete(w.g.streams, f[1])
		return "ok"
	case len(f) >= 12 && f[0] == "ssend":
		// ssend <stream> <spec>: the heartbeat is sent on that stream; when the server is back at Recv, error
		// answers are awaited (for at most 400 ms when none has come) and reported with the stream they came on
		s := w.g.streams[f[1]]
		if s == nil {
			return "bad-op"
		}
		w.g.srv.MustLead(true)
		req := regionh.ParseSpec(f[2:]).Heartbeat()
		req.Header = w.g.srv.Header()
		now := uint64(time.Now().Unix())
		req.Interval = &pdpb.TimeInterval{StartTimestamp: now - 10, EndTimestamp: now}
		select {
		case s.reqs <- req:
		case <-time.After(20 * time.Second):
			panic("ssend: the server does not read from the stream")
		}
		select {
		case <-s.idle:
		case <-time.After(20 * time.Second):
			panic("ssend: the server did not come back to Recv")
		}
		var got []string
		deadline := time.Now().Add(400 * time.Millisecond)
		for len(got) == 0 && time.Now().Before(deadline) {
			for _, name := range w.g.order {
				if st := w.g.streams[name]; st != nil {
					if n := st.takeErrs(); n > 0 {
						got = append(got, name)
					}
				}
			}
			if len(got) == 0 {
				time.Sleep(5 * time.Millisecond)
			}
		}
		e := "-"
		if len(got) > 0 {
			e = strings.Join(got, ",")
		}
		return fmt.Sprintf("err=%s S=%s", e, w.servedGRPC())
	}
	return "bad-op"
}
