// Command regioncache drives the real RaftCluster.processRegionHeartbeat (through the add-only hook
// VerifProcessRegionHeartbeat) on a RaftCluster built with the exported constructors and a memory
// storage, and writes the `<op> => <observation>` trace judged by the Lean model (property C06).
package main

import (
	"bytes"
	"context"
	"errors"
	"flag"
	"fmt"
	"io"
	"os"
	"sort"
	"strconv"
	"strings"
	"sync"
	"sync/atomic"
	"time"

	"github.com/pingcap/log"
	"go.uber.org/zap"
	"go.uber.org/zap/zapcore"

	"github.com/pingcap/kvproto/pkg/metapb"
	"github.com/tikv/pd/pkg/mock/mockid"
	"github.com/tikv/pd/server/cluster"
	"github.com/tikv/pd/server/config"
	"github.com/tikv/pd/server/core"
	"github.com/tikv/pd/server/kv"

	_ "verifharness/internal/quiet"
	"verifharness/internal/regionh"
	"verifharness/internal/rng"
	"verifharness/internal/trace"
)

type world struct {
	ctx      context.Context
	cancel   context.CancelFunc
	rc       *cluster.RaftCluster
	storage  *core.Storage
	gate     *gateKV
	dir      string                 // leveldb directory of the region storage (leveldb mode)
	held     map[int]*heldHeartbeat // heartbeats parked at their first storage write
	panicked bool
	g        *grpcWorld // the in-process PD server of a `reset grpc` sequence
}

var currentLogLevel = zapcore.ErrorLevel

// gateKV wraps the kv.Base of core.Storage (an exported embedded interface): when armed, the next Save or Remove
// parks its goroutine until it is released.
type gateKV struct {
	kv.Base
	mu      sync.Mutex
	armed   bool
	parked  chan struct{}
	release chan struct{}
	failing bool // the next Save fails (one shot)
}

var errInjected = errors.New("injected storage failure")

func (g *gateKV) failNext() {
	g.mu.Lock()
	g.failing = true
	g.mu.Unlock()
}

// renderingLogger replaces pd's global logger by one that RENDERS every entry of the given level and above
// (fields included, which is where Stringer fields such as RegionToHexMeta run) into a discard sink.
func renderingLogger(level zapcore.Level) {
	currentLogLevel = level
	core := zapcore.NewCore(zapcore.NewJSONEncoder(zap.NewProductionEncoderConfig()), zapcore.AddSync(io.Discard), level)
	log.ReplaceGlobals(zap.New(core), &log.ZapProperties{Core: core, Level: zap.NewAtomicLevelAt(level)})
}

func (g *gateKV) arm() (parked, release chan struct{}) {
	g.mu.Lock()
	defer g.mu.Unlock()
	g.armed, g.parked, g.release = true, make(chan struct{}), make(chan struct{})
	return g.parked, g.release
}

func (g *gateKV) disarm() {
	g.mu.Lock()
	g.armed = false
	g.mu.Unlock()
}

func (g *gateKV) maybePark() {
	g.mu.Lock()
	if !g.armed {
		g.mu.Unlock()
		return
	}
	g.armed = false
	p, r := g.parked, g.release
	g.mu.Unlock()
	close(p)
	<-r
}

func (g *gateKV) Save(k, v string) error {
	g.maybePark()
	g.mu.Lock()
	fail := g.failing
	g.failing = false
	g.mu.Unlock()
	if fail {
		return errInjected
	}
	return g.Base.Save(k, v)
}
func (g *gateKV) Remove(k string) error { g.maybePark(); return g.Base.Remove(k) }

type heldHeartbeat struct {
	release chan struct{}
	done    chan string
}

// handle runs one heartbeat; a panic (possible in any goroutine) becomes the answer "panic"
func (w *world) handle(r *core.RegionInfo) (out string) {
	defer func() {
		if e := recover(); e != nil {
			w.panicked = true
			out = "panic"
		}
	}()
	return verdict(w.rc.VerifProcessRegionHeartbeat(r))
}

// race <rounds> <k> <spec>: in every round k goroutines deliver the region of the spec with k consecutive, ever
// higher versions at the same moment, while a poller keeps reading GetRegion(id): the version it is served never
// goes back, and after the last round the highest version is served.  Reported: the first pair of versions the
// poller saw going back ("a>b", or "-"), the version served at the end, the served set.
func (w *world) race(f []string) string {
	rounds, _ := strconv.Atoi(f[1])
	k, _ := strconv.Atoi(f[2])
	base := regionh.ParseSpec(f[3:])
	id := base.ID
	stop := make(chan struct{})
	polled := make(chan string, 1)
	go func() {
		var last uint64
		bad := "-"
		for {
			select {
			case <-stop:
				polled <- bad
				return
			default:
			}
			if r := w.rc.GetRegion(id); r != nil {
				v := r.GetRegionEpoch().GetVersion()
				if v < last && bad == "-" {
					bad = fmt.Sprintf("%d>%d", last, v)
				}
				last = v
			}
		}
	}()
	ver := base.Ver
	for rd := 0; rd < rounds && !w.panicked; rd++ {
		var wg sync.WaitGroup
		start := make(chan struct{})
		for j := 0; j < k; j++ {
			ver++
			sp := *base
			sp.Ver = ver
			r := sp.Region()
			wg.Add(1)
			go func() {
				defer wg.Done()
				<-start
				w.handle(r)
			}()
		}
		close(start)
		w.waitOrGiveUp(&wg)
	}
	close(stop)
	if w.panicked {
		return "panic" // (the poller may be blocked on the lock as well)
	}
	bad := <-polled
	final := "nil"
	if r := w.rc.GetRegion(id); r != nil {
		final = strconv.FormatUint(r.GetRegionEpoch().GetVersion(), 10)
	}
	return fmt.Sprintf("bad=%s final=%s S=%s", bad, final, w.served())
}

// scanrace <n> <passes>: n contiguous regions are reported; then one goroutine keeps merging and splitting
// neighbouring pairs around positions 128 and 256 (heartbeats, one at a time) while three others keep calling
// ScanRegions("", "", 0).  Every answer is looked at: the first two neighbouring entries that are not in key
// order / not disjoint are reported in full ("-" when there are none); the Lean monitor judges them.
func (w *world) scanRace(f []string) string {
	n, _ := strconv.Atoi(f[1])
	passes, _ := strconv.Atoi(f[2])
	key := func(i int) []byte {
		if i <= 0 || i >= n {
			return []byte{}
		}
		return []byte(fmt.Sprintf("k%05d", i))
	}
	mk := func(i int, a, b int, ver uint64) *core.RegionInfo {
		id := uint64(i + 1)
		sp := &regionh.Spec{ID: id, Start: key(a), End: key(b), Ver: ver, Conf: 1, Term: 1, SizeBytes: 10 << 20,
			Leader: id*10 + 1, Peers: []*metapb.Peer{{Id: id*10 + 1, StoreId: 1}, {Id: id*10 + 2, StoreId: 2}, {Id: id*10 + 3, StoreId: 3}}}
		return sp.Region()
	}
	version := make([]uint64, n+1)
	for i := 0; i < n; i++ {
		version[i] = 1
		if v := w.handle(mk(i, i, i+1, 1)); v != "ok" {
			return "setup-" + v
		}
	}
	// the race only makes sense on the set that was reported (a cache that already serves other keys is the
	// business of the ordinary steps)
	if rs := w.rc.ScanRegions([]byte(""), []byte(""), 0); len(rs) != n || !bytes.Equal(rs[n/2].GetStartKey(), key(n/2)) {
		return "setup-served-set-differs"
	}
	var stop int32
	var bad atomic.Value
	var rwg sync.WaitGroup
	for r := 0; r < 3; r++ {
		rwg.Add(1)
		go func() {
			defer rwg.Done()
			for atomic.LoadInt32(&stop) == 0 && bad.Load() == nil {
				regions := w.rc.ScanRegions([]byte(""), []byte(""), 0)
				for j := 1; j < len(regions); j++ {
					prev, cur := regions[j-1], regions[j]
					if len(prev.GetEndKey()) == 0 || bytes.Compare(prev.GetEndKey(), cur.GetStartKey()) > 0 {
						bad.Store(regionh.Render(prev) + ";" + regionh.Render(cur))
						break
					}
				}
			}
		}()
	}
	var spots []int
	for _, c := range []int{128, 256, 384} {
		for i := c - 8; i < c+8 && i+1 < n; i += 2 {
			if i >= 0 {
				spots = append(spots, i)
			}
		}
	}
	grew := false
	for p := 0; p < passes && bad.Load() == nil && !w.panicked && !grew; p++ {
		if r := w.rc.GetRegion(uint64(spots[0] + 1)); r != nil && len(r.GetStartKey()) > 64 {
			grew = true // the served keys are not the reported ones any more (they would soon exhaust the memory)
			break
		}
		for _, i := range spots {
			v := version[i]
			if version[i+1] > v {
				v = version[i+1]
			}
			v++
			w.handle(mk(i, i, i+2, v)) // merge: region i takes over the range of region i+1
			v++
			w.handle(mk(i, i, i+1, v)) // split again
			w.handle(mk(i+1, i+1, i+2, v))
			version[i], version[i+1] = v, v
		}
	}
	atomic.StoreInt32(&stop, 1)
	w.waitOrGiveUp(&rwg)
	if w.panicked {
		return "panic"
	}
	if b := bad.Load(); b != nil {
		return "bad=" + b.(string)
	}
	if grew {
		return "served-keys-grew"
	}
	return "bad=-"
}

// waitOrGiveUp waits for wg; once a heartbeat has panicked (the cluster lock may be left held, so the other
// goroutines can block for ever) it gives up after two seconds and abandons them with this cluster.
func (w *world) waitOrGiveUp(wg *sync.WaitGroup) {
	done := make(chan struct{})
	go func() { wg.Wait(); close(done) }()
	for {
		select {
		case <-done:
			return
		case <-time.After(2 * time.Second):
			if w.panicked {
				return
			}
		}
	}
}

func (w *world) letGo() {
	for i, h := range w.held {
		close(h.release)
		<-h.done
		delete(w.held, i)
	}
}

func (w *world) reset(leveldb bool) {
	w.panicked = false
	w.letGo()
	if w.cancel != nil {
		w.cancel()
	}
	if w.storage != nil && w.dir != "" {
		w.storage.Close()
	}
	if w.dir != "" {
		os.RemoveAll(w.dir)
		w.dir = ""
	}
	w.held = map[int]*heldHeartbeat{}
	w.ctx, w.cancel = context.WithCancel(context.Background())
	if leveldb {
		// the region storage the server uses: leveldb behind core.RegionStorage's write batch
		dir, err := os.MkdirTemp(".", "regioncache-leveldb-")
		if err != nil {
			panic(err)
		}
		w.dir = dir
		rs, err := core.NewRegionStorage(w.ctx, dir, nil)
		if err != nil {
			panic(err)
		}
		w.storage = core.NewStorage(kv.NewMemoryKV(), core.WithRegionStorage(rs))
		w.storage.SwitchToRegionStorage()
		w.gate = nil
	} else {
		w.storage = core.NewStorage(kv.NewMemoryKV())
		w.gate = &gateKV{Base: w.storage.Base}
		w.storage.Base = w.gate
	}
	w.rc = cluster.NewRaftCluster(w.ctx, "", 1, nil, nil, nil)
	w.rc.InitCluster(mockid.NewIDAllocator(), config.NewTestOptions(), w.storage, core.NewBasicCluster())
}

// reload: what a restarting server would serve: every stored region handed to CheckAndPutRegion of a fresh
// cache in id order (read-only: nothing is deleted from storage here)
func (w *world) reload() string {
	bc := core.NewBasicCluster()
	err := w.storage.LoadRegions(func(r *core.RegionInfo) []*core.RegionInfo {
		bc.CheckAndPutRegion(r)
		return nil
	})
	if err != nil {
		panic(err)
	}
	return "R=" + regionh.IDs(bc.ScanRange([]byte(""), []byte(""), 0))
}

func (w *world) served() string {
	if w.panicked {
		return "?" // the cluster lock may still be held by the goroutine that panicked
	}
	rs := w.rc.ScanRegions([]byte(""), []byte(""), 0)
	if len(rs) == 0 {
		return "-"
	}
	l := make([]string, 0, len(rs))
	for _, r := range rs {
		l = append(l, regionh.Render(r))
	}
	return strings.Join(l, ";")
}

func (w *world) stored() string {
	if w.panicked {
		return "?"
	}
	var metas []*metapb.Region
	err := w.storage.LoadRegions(func(r *core.RegionInfo) []*core.RegionInfo {
		metas = append(metas, r.GetMeta())
		return nil
	})
	if err != nil {
		panic(err)
	}
	if len(metas) == 0 {
		return "-"
	}
	sort.Slice(metas, func(i, j int) bool { return metas[i].GetId() < metas[j].GetId() })
	l := make([]string, 0, len(metas))
	for _, m := range metas {
		l = append(l, regionh.RenderMeta(m))
	}
	return strings.Join(l, ";")
}

func verdict(err error) string {
	if err == nil {
		return "ok"
	}
	if strings.Contains(err.Error(), "region is stale") {
		return "stale"
	}
	return "err:" + strings.ReplaceAll(err.Error(), " ", "_")
}

func (w *world) exec(op string) string {
	f := strings.Fields(op)
	u := func(s string) uint64 { n, _ := strconv.ParseUint(s, 10, 64); return n }
	switch {
	case (len(f) == 2 && f[0] == "reset" && f[1] == "grpc") || f[0] == "sopen" || f[0] == "sclose" || f[0] == "ssend":
		return w.grpcExec(f)
	case f[0] == "reset" && len(f) <= 2:
		w.stopGRPC(false)
		w.reset(len(f) == 2 && f[1] == "leveldb")
		return "ok"
	case len(f) == 1 && f[0] == "flush":
		if err := w.storage.Flush(); err != nil {
			return "err"
		}
		return "ok M=" + w.stored()
	case len(f) == 1 && f[0] == "reload":
		return w.reload()
	case len(f) >= 12 && f[0] == "ghb":
		// ghb <stream> <spec>: the heartbeat runs in its own goroutine until its first storage write (Save /
		// Remove on the kv.Base of the storage), where it is held; or until it returns
		i, _ := strconv.Atoi(f[1])
		if w.gate == nil || w.held[i] != nil {
			return "bad-op"
		}
		r := regionh.ParseSpec(f[2:]).Region()
		parked, release := w.gate.arm()
		done := make(chan string, 1)
		go func() { done <- w.handle(r) }()
		select {
		case <-parked:
			w.held[i] = &heldHeartbeat{release: release, done: done}
			return fmt.Sprintf("parked S=%s M=%s", w.served(), w.stored())
		case v := <-done:
			w.gate.disarm()
			return fmt.Sprintf("%s S=%s M=%s", v, w.served(), w.stored())
		case <-time.After(20 * time.Second):
			panic("ghb: neither parked nor done")
		}
	case len(f) == 2 && f[0] == "release":
		i, _ := strconv.Atoi(f[1])
		h := w.held[i]
		if h == nil {
			return "bad-op"
		}
		close(h.release)
		v := <-h.done
		delete(w.held, i)
		return fmt.Sprintf("%s S=%s M=%s", v, w.served(), w.stored())
	case len(f) >= 11 && f[0] == "hbf":
		// the heartbeat's SaveRegion fails (the pinned code logs the error and carries on)
		if w.gate == nil {
			return "bad-op"
		}
		r := regionh.ParseSpec(f[1:]).Region()
		w.gate.failNext()
		v := verdict(w.rc.VerifProcessRegionHeartbeat(r))
		w.gate.mu.Lock()
		w.gate.failing = false
		w.gate.mu.Unlock()
		return fmt.Sprintf("%s S=%s M=%s", v, w.served(), w.stored())
	case len(f) >= 11 && f[0] == "hb":
		r := regionh.ParseSpec(f[1:]).Region()
		v := verdict(w.rc.VerifProcessRegionHeartbeat(r))
		return fmt.Sprintf("%s S=%s M=%s", v, w.served(), w.stored())
	case len(f) >= 2 && f[0] == "conc":
		// conc <spec> | <spec> | ... : the heartbeats are handled by concurrent goroutines
		var specs [][]string
		cur := []string{}
		for _, t := range f[1:] {
			if t == "|" {
				specs = append(specs, cur)
				cur = []string{}
			} else {
				cur = append(cur, t)
			}
		}
		specs = append(specs, cur)
		res := make([]string, len(specs))
		type one struct {
			i int
			v string
		}
		ch := make(chan one, len(specs))
		start := make(chan struct{})
		for i, sp := range specs {
			r := regionh.ParseSpec(sp).Region()
			go func(i int, r *core.RegionInfo) {
				<-start
				ch <- one{i, w.handle(r)}
			}(i, r)
		}
		close(start)
		for n := 0; n < len(specs); n++ {
			// a goroutine that panicked inside the locked section leaves the cluster lock held: the others
			// never return; they are reported as "hung" (and abandoned with this cluster)
			var timeout <-chan time.Time
			if w.panicked {
				timeout = time.After(2 * time.Second)
			}
			select {
			case o := <-ch:
				res[o.i] = o.v
			case <-timeout:
				for i := range res {
					if res[i] == "" {
						res[i] = "hung"
					}
				}
				n = len(specs)
			case <-time.After(60 * time.Second):
				panic("conc: a heartbeat did not return")
			}
		}
		return fmt.Sprintf("%s S=%s M=%s", strings.Join(res, ","), w.served(), w.stored())
	case len(f) >= 13 && f[0] == "race":
		return w.race(f)
	case len(f) == 3 && f[0] == "scanrace":
		return w.scanRace(f)
	case len(f) == 2 && f[0] == "get":
		return regionh.Render(w.rc.GetRegion(u(f[1])))
	case len(f) == 2 && f[0] == "bykey":
		return regionh.Render(w.rc.GetRegionByKey(regionh.ParseKey(f[1])))
	case len(f) == 2 && f[0] == "load":
		m := &metapb.Region{}
		ok, err := w.storage.LoadRegion(u(f[1]), m)
		if err != nil {
			return "err"
		}
		if !ok {
			return "nil"
		}
		return regionh.RenderMeta(m)
	}
	return "bad-op"
}

func (w *world) run(t *trace.W, op string) (out string) {
	defer func() {
		if e := recover(); e != nil {
			// a panic inside the heartbeat path leaves the cluster lock held and the cache half-updated: it is
			// reported as the observation "panic" (the monitor flags it) and nothing more runs until the next reset
			w.panicked = true
			out = "panic"
			t.Line(op, out)
		}
	}()
	if w.panicked && !strings.HasPrefix(op, "reset") {
		out = "skipped-after-panic"
		t.Line(op, out)
		return out
	}
	out = w.exec(op)
	t.Line(op, out)
	return out
}

// ---------------------------------------------------------------------------------------------
// a small TiKV: regions partition the key space; split: both halves version+1; merge: max+1;
// conf change: conf-version+1; leader change: term+1

type peer struct {
	id, store uint64
	learner   bool
}

type region struct {
	id, ver, conf, term, leader uint64
	size, keys, written         uint64
	start, end                  []byte
	peers                       []peer
	pending, down               []peer
}

func (r *region) spec() string {
	pl := func(ps []peer, role bool) string {
		if len(ps) == 0 {
			return "-"
		}
		var l []string
		for _, p := range ps {
			if role {
				x := "v"
				if p.learner {
					x = "l"
				}
				l = append(l, fmt.Sprintf("%d.%d.%s", p.id, p.store, x))
			} else {
				l = append(l, fmt.Sprintf("%d.%d", p.id, p.store))
			}
		}
		return strings.Join(l, ",")
	}
	s := fmt.Sprintf("%d %s %s %d %d %d %d %d %s %s", r.id, regionh.Key(r.start), regionh.Key(r.end), r.ver, r.conf,
		r.term, r.size, r.leader, pl(r.peers, true), pl(r.pending, false))
	if r.keys != 0 {
		s += fmt.Sprintf(" k=%d", r.keys)
	}
	if r.written != 0 {
		s += fmt.Sprintf(" w=%d", r.written)
	}
	if len(r.down) != 0 {
		s += " d=" + pl(r.down, false)
	}
	return s
}

func (r *region) clone() *region {
	c := *r
	c.peers = append([]peer{}, r.peers...)
	c.pending = append([]peer{}, r.pending...)
	c.down = append([]peer{}, r.down...)
	return &c
}

type gen struct {
	w          *world
	t          *trace.W
	r          *rng.R
	mode       int // 0: two-byte keys 1..40, 1: three-byte keys up to 10^6
	stores     int
	nextID     uint64
	nextP      uint64
	regs       []*region // the TiKV side, in key order
	pool       []string  // emitted, not yet (or no longer exclusively) delivered heartbeats
	kinds      map[string]int
	conc       bool
	ldb        bool // this sequence runs on the leveldb region storage (flush / reload ops)
	raceRounds int
}

func (g *gen) key() []byte {
	if g.mode == 0 {
		n := g.r.Range(1, 40)
		return []byte{0, byte(n)}
	}
	n := g.r.Range(1, 1000000)
	return []byte{byte(n >> 16), byte(n >> 8), byte(n)}
}

func (g *gen) newPeers(n int) []peer {
	perm := make([]int, g.stores)
	for i := range perm {
		perm[i] = i
	}
	for i := g.stores - 1; i > 0; i-- {
		j := g.r.Intn(i + 1)
		perm[i], perm[j] = perm[j], perm[i]
	}
	var ps []peer
	for i := 0; i < n; i++ {
		g.nextP++
		ps = append(ps, peer{g.nextP, uint64(perm[i] + 1), false})
	}
	return ps
}

func (g *gen) emit(r *region) { g.pool = append(g.pool, r.spec()) }

func (g *gen) bootstrap() {
	g.nextID++
	r := &region{id: g.nextID, ver: 1, conf: 1, term: 5, size: uint64(g.r.Range(1, 96)) << 20,
		start: []byte{}, end: []byte{}}
	r.peers = g.newPeers(imin(3, g.stores))
	r.leader = r.peers[0].id
	g.regs = []*region{r}
	g.emit(r)
}

func inside(r *region, k []byte) bool {
	return bytes.Compare(r.start, k) < 0 && (len(r.end) == 0 || bytes.Compare(k, r.end) < 0)
}

// one TiKV-side event
func (g *gen) simStep() {
	i := g.r.Intn(len(g.regs))
	r := g.regs[i]
	switch g.r.Pick(30, 16, 14, 12, 14, 14) {
	case 0: // split
		m := g.key()
		if !inside(r, m) {
			g.kinds["sim-split-skipped"]++
			return
		}
		g.kinds["sim-split"]++
		l, rr := r.clone(), r.clone()
		l.end, rr.start = m, m
		l.ver++
		rr.ver++
		l.size, rr.size = r.size/2+1, r.size/2+1
		fresh := rr
		if g.r.Bool(1, 2) { // right-derive: the old id keeps the right half
			fresh = l
		}
		g.nextID++
		fresh.id = g.nextID
		fresh.term = 5
		fresh.pending, fresh.down = nil, nil
		for k := range fresh.peers {
			g.nextP++
			if fresh.leader == fresh.peers[k].id {
				fresh.leader = g.nextP
			}
			fresh.peers[k].id = g.nextP
		}
		g.regs = append(append(append([]*region{}, g.regs[:i]...), l, rr), g.regs[i+1:]...)
		if g.r.Bool(1, 2) {
			g.emit(l)
			g.emit(rr)
		} else {
			g.emit(rr)
			g.emit(l)
		}
	case 1: // merge with the right neighbour (either one is the target)
		if i+1 >= len(g.regs) {
			g.kinds["sim-merge-skipped"]++
			return
		}
		g.kinds["sim-merge"]++
		n := g.regs[i+1]
		target, source := r, n
		if g.r.Bool(1, 2) {
			target, source = n, r
		}
		t := target.clone()
		t.start, t.end = r.start, n.end
		if source.ver > t.ver {
			t.ver = source.ver
		}
		t.ver++
		t.size = r.size + n.size
		g.regs = append(append(append([]*region{}, g.regs[:i]...), t), g.regs[i+2:]...)
		g.emit(t)
	case 2: // conf change
		g.kinds["sim-confchange"]++
		c := r.clone()
		c.conf++
		used := map[uint64]bool{}
		for _, p := range c.peers {
			used[p.store] = true
		}
		switch {
		case len(c.peers) < g.stores && g.r.Bool(1, 2): // add a learner
			for s := 1; s <= g.stores; s++ {
				if !used[uint64(s)] {
					g.nextP++
					c.peers = append(c.peers, peer{g.nextP, uint64(s), true})
					break
				}
			}
		case len(c.peers) > 1: // remove a non-leader peer, or promote a learner
			k := g.r.Intn(len(c.peers))
			if c.peers[k].learner && g.r.Bool(1, 2) {
				c.peers[k].learner = false
			} else if c.peers[k].id != c.leader {
				gone := c.peers[k].id
				c.peers = append(c.peers[:k], c.peers[k+1:]...)
				c.pending = dropPeer(c.pending, gone)
				c.down = dropPeer(c.down, gone)
			}
		}
		g.regs[i] = c
		g.emit(c)
	case 3: // leader change
		c := r.clone()
		var voters []peer
		for _, p := range c.peers {
			if !p.learner && p.id != c.leader {
				voters = append(voters, p)
			}
		}
		if len(voters) == 0 {
			g.kinds["sim-leader-skipped"]++
			return
		}
		g.kinds["sim-leaderchange"]++
		c.leader = voters[g.r.Intn(len(voters))].id
		c.term++
		g.regs[i] = c
		g.emit(c)
	case 4: // size / flow / pending / down change
		g.kinds["sim-statchange"]++
		c := r.clone()
		switch g.r.Intn(4) {
		case 0:
			c.size = uint64(g.r.Range(0, 200)) << 20
			c.keys = uint64(g.r.Intn(100000))
		case 1:
			c.written = uint64(g.r.Intn(1 << 20))
		case 2:
			c.pending = nil
			for _, p := range c.peers {
				if p.id != c.leader && g.r.Bool(1, 3) {
					c.pending = append(c.pending, p)
				}
			}
		default:
			c.down = nil
			for _, p := range c.peers {
				if p.id != c.leader && g.r.Bool(1, 4) {
					c.down = append(c.down, p)
				}
			}
		}
		g.regs[i] = c
		g.emit(c)
	default: // periodic heartbeat, unchanged
		g.kinds["sim-heartbeat"]++
		g.emit(r)
	}
}

func dropPeer(l []peer, id uint64) []peer {
	var out []peer
	for _, p := range l {
		if p.id != id {
			out = append(out, p)
		}
	}
	return out
}

// an arbitrary (illegitimate) heartbeat: ids, ranges and epochs unrelated to any history
func (g *gen) wild() string {
	r := &region{id: uint64(g.r.Range(1, 8)), ver: uint64(g.r.Range(1, 6)), conf: uint64(g.r.Range(1, 4)),
		term: uint64(g.r.Intn(4)), size: uint64(g.r.Range(0, 64)) << 20}
	for {
		a, b := g.key(), g.key()
		if g.r.Bool(1, 6) {
			a = []byte{}
		}
		if g.r.Bool(1, 6) {
			b = []byte{}
		}
		if len(b) == 0 || bytes.Compare(a, b) < 0 {
			r.start, r.end = a, b
			break
		}
	}
	r.peers = g.newPeers(g.r.Range(1, imin(3, g.stores)))
	r.leader = r.peers[g.r.Intn(len(r.peers))].id
	if g.r.Bool(1, 8) {
		r.leader = 0
	}
	return r.spec()
}

func (g *gen) deliver() {
	if len(g.pool) == 0 {
		return
	}
	take := func() string {
		i := g.r.Intn(len(g.pool))
		// mostly recent heartbeats, sometimes an old one
		if g.r.Bool(2, 3) {
			i = len(g.pool) - 1 - g.r.Intn(imin(len(g.pool), 4))
		}
		s := g.pool[i]
		if !g.r.Bool(1, 4) { // 1 in 4 stays for a duplicate delivery later
			g.pool = append(g.pool[:i], g.pool[i+1:]...)
		} else {
			g.kinds["duplicate-kept"]++
		}
		return s
	}
	if g.conc && g.r.Bool(1, 5) && len(g.pool) >= 2 {
		k := g.r.Range(2, imin(5, len(g.pool)))
		var l []string
		for j := 0; j < k && len(g.pool) > 0; j++ {
			l = append(l, take())
		}
		g.kinds["conc"]++
		g.w.run(g.t, "conc "+strings.Join(l, " | "))
		return
	}
	s := take()
	if !g.ldb && g.r.Bool(1, 10) {
		// hold this heartbeat at its first storage write, handle others (a newer one of the same region with
		// preference), then let it go
		out := g.w.run(g.t, "ghb 0 "+s)
		g.kinds["ghb-"+strings.Fields(out)[0]]++
		if strings.HasPrefix(out, "parked") {
			f := strings.Fields(s)
			for j, nj := 0, g.r.Range(1, 3); j < nj; j++ {
				switch g.r.Intn(3) {
				case 0: // the same region one version / conf-version later
					nf := append([]string{}, f...)
					k := 3 + g.r.Intn(2)
					v, _ := strconv.Atoi(nf[k])
					nf[k] = strconv.Itoa(v + 1)
					g.w.run(g.t, "hb "+strings.Join(nf, " "))
					g.kinds["hb-newer-while-held"]++
				case 1: // another pending heartbeat of the same region, if there is one
					sent := false
					for _, p := range g.pool {
						if strings.HasPrefix(p, f[0]+" ") && p != s {
							g.w.run(g.t, "hb "+p)
							sent = true
							break
						}
					}
					if !sent && len(g.pool) > 0 {
						g.w.run(g.t, "hb "+g.pool[g.r.Intn(len(g.pool))])
					}
				default:
					if len(g.pool) > 0 {
						g.w.run(g.t, "hb "+g.pool[g.r.Intn(len(g.pool))])
					}
				}
			}
			g.w.run(g.t, "release 0")
		}
		return
	}
	op := "hb "
	if !g.ldb && g.r.Bool(1, 12) {
		op = "hbf " // with a failing SaveRegion
		g.kinds["hb-save-fails"]++
	}
	out := g.w.run(g.t, op+s)
	g.kinds["hb-"+strings.Fields(out)[0]]++
	if g.ldb && g.r.Bool(1, 8) {
		g.kinds["flush"]++
		g.w.run(g.t, "flush")
	}
	if g.r.Bool(1, 25) {
		g.w.run(g.t, "reload")
	}
	if g.r.Bool(1, 3) {
		f := strings.Fields(s)
		switch g.r.Intn(3) {
		case 0:
			g.w.run(g.t, "get "+f[0])
		case 1:
			g.w.run(g.t, "bykey "+f[g.r.Range(1, 2)])
		default:
			g.w.run(g.t, "load "+f[0])
		}
	}
	for len(g.pool) > 60 {
		i := g.r.Intn(len(g.pool))
		g.pool = append(g.pool[:i], g.pool[i+1:]...)
	}
}

// grpcSequence: heartbeats through Server.RegionHeartbeat of an in-process server: region 2 (bootstrap, whole key
// space) and its splits, leaders on stores 1..3, one stream per store; a store re-opens its stream now and then
// and the first message on the new stream is often an outdated one
func (g *gen) grpcSequence() {
	renderingLogger(zapcore.ErrorLevel)
	g.kinds["seq-grpc"]++
	g.w.run(g.t, "reset grpc")
	type reg struct {
		id, ver, conf, term uint64
		start, end          string
		peers               [3]uint64 // peer ids on stores 1..3
	}
	nextPeer := uint64(10)
	nextID := uint64(10)
	mk := func(id uint64, start, end string) *reg {
		r := &reg{id: id, ver: 2, conf: 2, term: 5, start: start, end: end}
		for i := range r.peers {
			nextPeer++
			r.peers[i] = nextPeer
		}
		return r
	}
	regs := []*reg{mk(2, "_", "_")}
	spec := func(r *reg, leaderStore int) string {
		var ps []string
		for i, p := range r.peers {
			ps = append(ps, fmt.Sprintf("%d.%d.v", p, i+1))
		}
		return fmt.Sprintf("%d %s %s %d %d %d %d %d %s -", r.id, r.start, r.end, r.ver, r.conf, r.term,
			uint64(g.r.Range(1, 64))<<20, r.peers[leaderStore-1], strings.Join(ps, ","))
	}
	var old []string // heartbeats that were produced earlier (possibly outdated by now), with their store
	var oldStore []int
	gen := map[int]int{}
	name := func(st int) string { return fmt.Sprintf("s%d.%d", st, gen[st]) }
	for st := 1; st <= 3; st++ {
		g.w.run(g.t, "sopen "+name(st))
	}
	for i, n := 0, g.r.Range(8, 14); i < n; i++ {
		r := regs[g.r.Intn(len(regs))]
		st := g.r.Range(1, 3)
		switch g.r.Intn(4) {
		case 0: // split
			if len(regs) < 4 {
				k := fmt.Sprintf("%02x", 0x20*len(regs))
				if (r.start == "_" || r.start < k) && (r.end == "_" || k < r.end) {
					nextID++
					nr := mk(nextID, k, r.end)
					nr.ver, nr.conf = r.ver+1, r.conf
					r.end = k
					r.ver++
					regs = append(regs, nr)
					old = append(old, spec(nr, st))
					oldStore = append(oldStore, st)
					g.w.run(g.t, fmt.Sprintf("ssend %s %s", name(st), spec(nr, st)))
				}
			}
		case 1: // leader change
			r.term++
		case 2:
			r.conf++
		}
		s := spec(r, st)
		old = append(old, s)
		oldStore = append(oldStore, st)
		if g.r.Bool(1, 3) {
			// the store reconnects: the first message on the new stream is an earlier (often outdated) heartbeat
			g.w.run(g.t, "sclose "+name(st))
			gen[st]++
			g.w.run(g.t, "sopen "+name(st))
			j := g.r.Intn(len(old))
			if oldStore[j] == st {
				g.kinds["grpc-first-message-old"]++
				g.w.run(g.t, fmt.Sprintf("ssend %s %s", name(st), old[j]))
			}
		}
		g.w.run(g.t, fmt.Sprintf("ssend %s %s", name(st), s))
		if g.r.Bool(1, 2) {
			j := g.r.Intn(len(old))
			g.w.run(g.t, fmt.Sprintf("ssend %s %s", name(oldStore[j]), old[j]))
		}
	}
}

func (g *gen) sequence(maxOps int, kind int) {
	// pd's log entries are rendered (into a discard sink): at debug level in every third sequence, otherwise from
	// error level up (what a production server renders at least)
	if g.r.Bool(1, 3) {
		g.kinds["log-rendered-from-debug"]++
		g.t.Comment("loglevel debug")
		renderingLogger(zapcore.DebugLevel)
	} else {
		g.t.Comment("loglevel error")
		renderingLogger(zapcore.ErrorLevel)
	}
	if g.ldb {
		g.kinds["seq-leveldb"]++
		g.w.run(g.t, "reset leveldb")
	} else {
		g.w.run(g.t, "reset")
	}
	g.mode = g.r.Pick(3, 2)
	g.stores = g.r.Range(3, 5)
	g.nextID, g.nextP = 0, 0
	g.pool, g.regs = nil, nil
	g.bootstrap()
	n := g.r.Range(maxOps/2, maxOps)
	switch kind {
	case 0:
		g.kinds["seq-legit"]++
	case 1:
		g.kinds["seq-legit+wild"]++
	default:
		g.kinds["seq-wild"]++
	}
	for i := 0; i < n; i++ {
		switch kind {
		case 0: // legitimate history, shuffled / duplicated / delayed delivery
			if g.r.Bool(2, 5) {
				g.simStep()
			} else {
				g.deliver()
			}
		case 1: // the same plus arbitrary heartbeats in between
			switch g.r.Pick(4, 5, 2) {
			case 0:
				g.simStep()
			case 1:
				g.deliver()
			default:
				g.pool = append(g.pool, g.wild())
			}
		default: // arbitrary stream only
			g.pool = append(g.pool, g.wild())
			g.deliver()
			if g.r.Bool(1, 3) {
				g.deliver()
			}
		}
	}
	for j := 0; j < 6 && len(g.pool) > 0; j++ {
		g.deliver()
	}
	if !g.ldb && g.raceRounds > 0 && len(g.regs) > 0 && g.r.Bool(1, 3) {
		// last: rounds of 8 concurrent heartbeats of ONE region with ever higher versions, and a poller
		r := g.regs[g.r.Intn(len(g.regs))].clone()
		r.ver += 20 // above everything delivered for this region so far
		g.kinds["race"]++
		g.w.run(g.t, fmt.Sprintf("race %d 8 %s", g.raceRounds, r.spec()))
	}
}

func imin(a, b int) int {
	if a < b {
		return a
	}
	return b
}

func main() {
	out := flag.String("out", "-", "trace file")
	replay := flag.String("replay", "", "ops file to replay instead of generating")
	n := flag.Int("n", 20, "number of generated sequences")
	maxOps := flag.Int("len", 150, "max steps per sequence")
	conc := flag.Bool("conc", false, "also deliver batches of heartbeats concurrently")
	stream := flag.Uint64("stream", 0, "PRNG stream")
	grpcSeq := flag.Int("grpc", 2, "streams whose number is a multiple of this run one sequence through Server.RegionHeartbeat of an in-process server (0 = none)")
	raceRounds := flag.Int("race", 30, "rounds of the same-region race op at the end of a third of the sequences (0 = none)")
	scanRaces := flag.Int("scanrace", 1, "number of scan-versus-merge/split sequences at the end")
	scanPasses := flag.Int("scanpasses", 30, "merge/split passes of a scanrace op")
	ldb := flag.Int("leveldb", 6, "one sequence in this many runs on the leveldb region storage with its write batch (0 = never)")
	flag.Parse()

	w := &world{}
	w.reset(false)
	defer w.reset(false)
	defer w.stopGRPC(true)
	t := trace.Create(*out)
	defer t.Close()
	if *replay != "" {
		renderingLogger(zapcore.DebugLevel) // replays render everything
		for _, op := range trace.ReadOps(*replay) {
			w.run(t, op)
		}
		return
	}
	g := &gen{w: w, t: t, r: rng.FromEnv(*stream), kinds: map[string]int{}, raceRounds: *raceRounds}
	for s := 0; s < *n; s++ {
		g.conc = *conc && s%4 == 3 // batches of concurrently handled heartbeats in every 4th sequence
		g.ldb = *ldb > 0 && s%*ldb == 1 && !g.conc

		g.sequence(*maxOps, []int{0, 0, 1, 0, 2}[s%5])
	}
	for i := 0; i < *scanRaces; i++ {
		g.kinds["scanrace"]++
		g.t.Comment("loglevel error")
		renderingLogger(zapcore.ErrorLevel)
		w.run(t, "reset")
		w.run(t, fmt.Sprintf("scanrace %d %d", []int{300, 200, 420}[i%3], *scanPasses))
	}
	if *grpcSeq > 0 && int(*stream)%*grpcSeq == 0 {
		// last, so that the server can simply be abandoned when the process ends
		g.grpcSequence()
	}
	var ks []string
	for k := range g.kinds {
		ks = append(ks, k)
	}
	sort.Strings(ks)
	var sb strings.Builder
	for _, k := range ks {
		fmt.Fprintf(&sb, " %s=%d", k, g.kinds[k])
	}
	t.Comment("distribution:" + sb.String())
}
