// Command bootstrap drives the real Bootstrap / IsBootstrapped handlers of two in-process PD servers
// that share one etcd cluster, and initOrGetClusterID on the same etcd, and writes the
// `<op> => <observation>` trace judged by the Lean model (property C20).
//
// The etcd client of every server is wrapped so that the transaction of a chosen request goroutine parks
// before it is committed (deterministic interleavings of racing bootstrap transactions and leader changes);
// free-running concurrent bursts are judged by the monitor.
package main

import (
	"context"
	"errors"
	"flag"
	"fmt"
	"io"
	"os"
	"path"
	"sort"
	"strconv"
	"strings"
	"sync"
	"time"

	"github.com/pingcap/kvproto/pkg/metapb"
	"github.com/syndtr/goleveldb/leveldb"
	"github.com/pingcap/kvproto/pkg/pdpb"
	"github.com/tikv/pd/pkg/typeutil"
	"github.com/tikv/pd/server"
	"github.com/tikv/pd/server/config"
	"go.etcd.io/etcd/clientv3"
	"google.golang.org/grpc/metadata"

	"verifharness/internal/gcbootsrv"
	"verifharness/internal/rng"
	"verifharness/internal/trace"
)

const idSpan = 32 // ids of one sequence: base+1 .. base+idSpan-1

type breq struct {
	idx     int
	waiting bool // neither parked nor answered: it waits for another request inside the handler
	goid    string
	gate   *gcbootsrv.TxnGate
	done   chan string
	parked bool
	result string
}

type idreq struct {
	gate   *gcbootsrv.TxnGate
	done   chan string
	parked bool
	client *clientv3.Client
}

type world struct {
	c     *gcbootsrv.Cluster
	gates []*gcbootsrv.GoGateKV
	cid   uint64
	root  string // <pd root>/raft
	seq   int
	base  uint64
	reqs  []*breq
	// cluster id part
	idKey   string
	idReqs  []*idreq
	idVals  []uint64 // distinct values seen, in order of appearance
	idGates []*gcbootsrv.GoGateKV
	// region storage write fault: the good leveldb handles that have been swapped for a closed one
	goodDB map[int]*leveldb.DB
	deadDB *leveldb.DB
}

// regFault switches member m to its leader-local region storage (leveldb) and makes every write of it fail
// ("leveldb: closed": the embedded DB handle is swapped for a closed one), or undoes both.
func (w *world) regFault(m int, on bool) {
	st := w.c.Srvs[m].S.GetStorage()
	rs := st.GetRegionStorage()
	if rs == nil {
		return
	}
	if w.goodDB == nil {
		w.goodDB = map[int]*leveldb.DB{}
	}
	if on {
		if w.deadDB == nil {
			db, err := leveldb.OpenFile(w.c.Srvs[0].Cfg.DataDir+"/verif-dead-leveldb", nil)
			if err != nil {
				panic(err)
			}
			db.Close()
			w.deadDB = db
		}
		if _, done := w.goodDB[m]; !done {
			w.goodDB[m] = rs.LeveldbKV.DB
			rs.LeveldbKV.DB = w.deadDB
		}
		st.SwitchToRegionStorage()
		return
	}
	if db, ok := w.goodDB[m]; ok {
		rs.LeveldbKV.DB = db
		delete(w.goodDB, m)
	}
	st.SwitchToDefaultStorage()
}

func ctx() context.Context { return context.Background() }

func newWorld() *world {
	c := gcbootsrv.StartCluster(2, func(cfg *config.Config) { cfg.PDServerCfg.UseRegionStorage = false })
	w := &world{c: c}
	w.cid = c.Srvs[0].S.ClusterID()
	// (members holding different cluster ids are reported by every `reset`)
	w.root = path.Join("/pd", strconv.FormatUint(w.cid, 10), "raft")
	for _, s := range c.Srvs {
		w.gates = append(w.gates, gcbootsrv.WrapGo(s.S.GetClient()))
	}
	return w
}

func (w *world) toReal(k uint64) uint64 {
	if k == 0 {
		return 0
	}
	return w.base + k
}

func (w *world) fromReal(v uint64) string {
	if v > w.base && v < w.base+idSpan {
		return strconv.FormatUint(v-w.base, 10)
	}
	return "!" + strconv.FormatUint(v, 10)
}

// payload token: S<id|->,R<id|->,K<a><b>,P<pid>@<sid>+...
func (w *world) parsePayload(tok string) (*pdpb.BootstrapRequest, bool) {
	parts := strings.Split(tok, ",")
	if len(parts) != 4 {
		return nil, false
	}
	req := &pdpb.BootstrapRequest{}
	u := func(s string) (uint64, bool) { n, err := strconv.ParseUint(s, 10, 64); return n, err == nil && n < idSpan }
	if !strings.HasPrefix(parts[0], "S") || !strings.HasPrefix(parts[1], "R") ||
		!strings.HasPrefix(parts[2], "K") || !strings.HasPrefix(parts[3], "P") || len(parts[2]) != 3 {
		return nil, false
	}
	if parts[0] != "S-" {
		id, ok := u(parts[0][1:])
		if !ok {
			return nil, false
		}
		req.Store = &metapb.Store{Id: w.toReal(id), Address: fmt.Sprintf("mock://%d", id)}
	}
	if parts[1] != "R-" {
		id, ok := u(parts[1][1:])
		if !ok {
			return nil, false
		}
		r := &metapb.Region{Id: w.toReal(id), RegionEpoch: &metapb.RegionEpoch{ConfVer: 1, Version: 1}}
		if parts[2][1] != '0' {
			r.StartKey = []byte("a")
		}
		if parts[2][2] != '0' {
			r.EndKey = []byte("z")
		}
		if ps := parts[3][1:]; ps != "" {
			for _, p := range strings.Split(ps, "+") {
				ab := strings.Split(p, "@")
				if len(ab) != 2 {
					return nil, false
				}
				a, ok1 := u(ab[0])
				b, ok2 := u(ab[1])
				if !ok1 || !ok2 {
					return nil, false
				}
				r.Peers = append(r.Peers, &metapb.Peer{Id: w.toReal(a), StoreId: w.toReal(b)})
			}
		}
		req.Region = r
	}
	return req, true
}

func (w *world) header(tok string) (*pdpb.RequestHeader, bool) {
	switch tok {
	case "own":
		return &pdpb.RequestHeader{ClusterId: w.cid}, true
	case "other":
		return &pdpb.RequestHeader{ClusterId: w.cid + 1}, true
	case "zero":
		return &pdpb.RequestHeader{ClusterId: 0}, true
	}
	return nil, false
}

func errOut(err error) string {
	s := err.Error()
	switch {
	case strings.Contains(s, "is not leader") || errors.Is(err, server.ErrNotLeader) || strings.Contains(s, "not leader"):
		return "err-not-leader"
	case strings.Contains(s, "invalid cluster") && strings.Contains(s, "mismatch cluster id"):
		// RaftCluster.PutConfig: the cluster id in the BODY of the request
		return "err-body-cluster-id"
	case strings.Contains(s, "mismatch cluster id"):
		return "err-cluster-id"
	case strings.Contains(s, gcbootsrv.ErrInjectedTxn.Error()):
		return "err-txn"
	case strings.Contains(s, "context deadline exceeded"):
		// the transaction's own 10 s timeout ran out while it was parked (slow machine): it did not execute
		return "err-timeout"
	case strings.Contains(s, "ErrEtcdTxnConflict") || strings.Contains(s, "etcd transaction failed, conflicted"):
		return "err-conflict"
	case strings.Contains(s, "missing store meta"):
		return "malformed:missing-store"
	case strings.Contains(s, "invalid zero store id"):
		return "malformed:zero-store"
	case strings.Contains(s, "missing region meta"):
		return "malformed:missing-region"
	case strings.Contains(s, "invalid first region key range"):
		return "malformed:key-range"
	case strings.Contains(s, "invalid zero region id"):
		return "malformed:zero-region"
	case strings.Contains(s, "invalid first region peer count"):
		return "malformed:peer-count"
	case strings.Contains(s, "invalid peer store id"):
		return "malformed:peer-store"
	case strings.Contains(s, "invalid zero peer id"):
		return "malformed:zero-peer"
	}
	return "err:" + strings.ReplaceAll(s, " ", "_")
}

// tsoStream is the server side of one Tso stream fed from a list of requests.
type tsoStream struct {
	reqs []*pdpb.TsoRequest
	next int
	sent int
	bad  bool // a response without a timestamp
}

func (t *tsoStream) Send(r *pdpb.TsoResponse) error {
	if r.GetTimestamp() == nil {
		t.bad = true
	}
	t.sent++
	return nil
}
func (t *tsoStream) Recv() (*pdpb.TsoRequest, error) {
	if t.next >= len(t.reqs) {
		return nil, io.EOF
	}
	t.next++
	return t.reqs[t.next-1], nil
}
func (t *tsoStream) SetHeader(metadata.MD) error  { return nil }
func (t *tsoStream) SendHeader(metadata.MD) error { return nil }
func (t *tsoStream) SetTrailer(metadata.MD)       {}
func (t *tsoStream) Context() context.Context     { return context.Background() }
func (t *tsoStream) SendMsg(m interface{}) error  { return nil }
func (t *tsoStream) RecvMsg(m interface{}) error  { return nil }

func (w *world) bootstrap(m int, req *pdpb.BootstrapRequest) string {
	resp, err := w.c.Srvs[m].S.Bootstrap(ctx(), req)
	if err != nil {
		return errOut(err)
	}
	if e := resp.GetHeader().GetError(); e != nil {
		if e.GetType() == pdpb.ErrorType_ALREADY_BOOTSTRAPPED {
			return "already"
		}
		return "err-header:" + e.GetType().String()
	}
	return "ok"
}

// records reads the bootstrap keys of this cluster straight from etcd.
func (w *world) records() string {
	resp, err := w.c.Raw.Get(ctx(), w.root, clientv3.WithPrefix(), clientv3.WithSort(clientv3.SortByKey, clientv3.SortAscend))
	if err != nil {
		panic(err)
	}
	meta, tm := "none", "0"
	var stores, regions, extra []string
	for _, kv := range resp.Kvs {
		k := strings.TrimPrefix(string(kv.Key), w.root)
		switch {
		case k == "":
			c := &metapb.Cluster{}
			if err := c.Unmarshal(kv.Value); err != nil {
				meta = "unreadable"
			} else if c.GetId() == w.cid {
				meta = "own"
			} else {
				meta = "other"
			}
		case strings.HasPrefix(k, "/s/"):
			st := &metapb.Store{}
			if err := st.Unmarshal(kv.Value); err != nil {
				stores = append(stores, "unreadable")
			} else {
				stores = append(stores, w.fromReal(st.GetId()))
			}
		case strings.HasPrefix(k, "/r/"):
			r := &metapb.Region{}
			if err := r.Unmarshal(kv.Value); err != nil {
				regions = append(regions, "unreadable")
			} else {
				regions = append(regions, w.fromReal(r.GetId()))
			}
		case k == "/status/raft_bootstrap_time":
			tm = "1"
		default:
			extra = append(extra, k)
		}
	}
	j := func(l []string) string {
		if len(l) == 0 {
			return "-"
		}
		return strings.Join(l, ",")
	}
	run := ""
	for _, s := range w.c.Srvs {
		if s.S.GetRaftCluster() != nil {
			run += "1"
		} else {
			run += "0"
		}
	}
	out := fmt.Sprintf("recs=%s:%s:%s:%s run=%s", meta, j(stores), j(regions), tm, run)
	if len(extra) > 0 {
		sort.Strings(extra)
		out += " extra=" + strings.Join(extra, ",")
	}
	return out
}

func (w *world) leadTo(m int) {
	for tries := 0; tries < 200; tries++ {
		l := w.c.WaitLeader()
		if l == m {
			// wait until the other member has stepped down completely (its raft cluster is stopped by the
			// deferred calls of campaignLeader)
			return
		}
		s := w.c.Srvs[l].S
		_ = s.GetMember().ResignEtcdLeader(ctx(), s.Name(), w.c.Srvs[m].S.Name())
		deadline := time.Now().Add(5 * time.Second)
		for time.Now().Before(deadline) && w.c.Leader() != m {
			time.Sleep(2 * time.Millisecond)
		}
	}
	panic("leader transfer failed")
}

// settleLeader waits until exactly member m serves and the other one has finished stepping down.
func (w *world) settleLeader(m int, wasRunning bool) {
	other := 1 - m
	deadline := time.Now().Add(10 * time.Second)
	for time.Now().Before(deadline) {
		o := w.c.Srvs[other].S
		if w.c.Leader() == m && !o.GetMember().IsLeader() && (!wasRunning || o.GetRaftCluster() == nil) {
			return
		}
		time.Sleep(2 * time.Millisecond)
	}
	panic("old leader did not step down")
}

func (w *world) finishPending() {
	for round := 0; round < 3; round++ {
		for _, r := range w.reqs {
			if r.waiting {
				select {
				case <-r.gate.Parked:
					r.waiting, r.parked = false, true
				case r.result = <-r.done:
					r.waiting = false
				case <-time.After(time.Second):
				}
			}
			if r.parked {
				r.gate.Release <- "before"
				select {
				case r.result = <-r.done:
				case <-time.After(10 * time.Second):
				}
				r.parked = false
			}
		}
	}
	for _, r := range w.idReqs {
		if r.parked {
			r.gate.Release <- "before"
			<-r.done
			r.parked = false
		}
		if r.client != nil {
			r.client.Close()
			r.client = nil
		}
	}
}

func (w *world) reset(leader int) {
	w.finishPending()
	w.reqs, w.idReqs, w.idVals, w.idKey = nil, nil, nil, ""
	for m := range w.c.Srvs {
		if _, on := w.goodDB[m]; on {
			w.regFault(m, false)
		}
	}
	w.leadTo(leader)
	// un-bootstrap: stop the raft clusters, remove the bootstrap keys
	for _, s := range w.c.Srvs {
		if rc := s.S.GetRaftCluster(); rc != nil {
			rc.Stop()
		}
	}
	if _, err := w.c.Raw.Delete(ctx(), w.root, clientv3.WithPrefix()); err != nil {
		panic(err)
	}
	w.seq++
	w.base = uint64(w.seq) * idSpan
}

func canonBurst(o string) string {
	if o == "ok" || o == "err-txn" || o == "err-timeout" {
		return o
	}
	return "refused"
}

func (w *world) exec(op string) string {
	f := strings.Fields(op)
	bad := "bad-op"
	atoi := func(s string) (int, bool) { n, err := strconv.Atoi(s); return n, err == nil }
	member := func(s string) (int, bool) { n, ok := atoi(s); return n, ok && n >= 0 && n < len(w.c.Srvs) }
	switch {
	case len(f) == 2 && f[0] == "reset":
		m, ok := member(f[1])
		if !ok {
			return bad
		}
		w.reset(m)
		for _, s := range w.c.Srvs {
			if s.S.ClusterID() != w.cid {
				return "members-disagree-on-cluster-id"
			}
		}
		return "ok"
	case len(f) == 5 && f[0] == "boot":
		r, ok0 := atoi(f[1])
		m, ok1 := member(f[2])
		hdr, ok2 := w.header(f[3])
		req, ok3 := w.parsePayload(f[4])
		if !ok0 || !ok1 || !ok2 || !ok3 || r != len(w.reqs) {
			return bad
		}
		req.Header = hdr
		q := &breq{idx: r, done: make(chan string, 1)}
		q.gate = &gcbootsrv.TxnGate{Parked: make(chan struct{}, 4), Release: make(chan string, 4)}
		w.reqs = append(w.reqs, q)
		idc := make(chan string, 1)
		go func() {
			id := gcbootsrv.GoID()
			idc <- id
			w.gates[m].RegisterID(id, q.gate)
			defer w.gates[m].Unregister()
			q.done <- w.bootstrap(m, req)
		}()
		q.goid = <-idc
		deadline := time.Now().Add(5 * time.Second)
		for spin := 0; ; spin++ {
			select {
			case <-q.gate.Parked:
				q.parked = true
				return "parked"
			case res := <-q.done:
				q.result = res
				return res
			default:
			}
			// not at its transaction and not answered: it waits for somebody else inside the handler
			if (spin > 20 && gcbootsrv.WaitingIn(q.goid, "(*Server).Bootstrap")) || time.Now().After(deadline) {
				q.waiting = true
				return "waiting"
			}
			time.Sleep(200 * time.Microsecond)
		}
	case (len(f) == 2 || len(f) == 3) && f[0] == "commit":
		r, ok := atoi(f[1])
		if !ok || r < 0 || r >= len(w.reqs) || !(w.reqs[r].parked || w.reqs[r].waiting) {
			return bad
		}
		fault := "none"
		if len(f) == 3 {
			fault = f[2]
		}
		q := w.reqs[r]
		if q.waiting {
			// a request that was waiting inside the handler: parked at its transaction by now, answered, or
			// still waiting
			select {
			case <-q.gate.Parked:
				q.waiting, q.parked = false, true
			case res := <-q.done:
				q.waiting = false
				q.result = res
				return res
			case <-time.After(300 * time.Millisecond):
				return "waiting"
			}
		}
		q.gate.Release <- fault
		select {
		case q.result = <-q.done:
		case <-time.After(20 * time.Second):
			return "stuck"
		}
		q.parked = false
		return q.result
	case len(f) == 4 && f[0] == "bootnow":
		m, ok1 := member(f[1])
		hdr, ok2 := w.header(f[2])
		req, ok3 := w.parsePayload(f[3])
		if !ok1 || !ok2 || !ok3 {
			return bad
		}
		req.Header = hdr
		return w.bootstrap(m, req)
	case len(f) >= 3 && f[0] == "burst":
		m, ok := member(f[1])
		if !ok {
			return bad
		}
		var reqs []*pdpb.BootstrapRequest
		for _, tok := range f[2:] {
			req, ok := w.parsePayload(tok)
			if !ok {
				return bad
			}
			req.Header, _ = w.header("own")
			reqs = append(reqs, req)
		}
		res := make([]string, len(reqs))
		var wg sync.WaitGroup
		start := make(chan struct{})
		for k, req := range reqs {
			wg.Add(1)
			go func(k int, req *pdpb.BootstrapRequest) {
				defer wg.Done()
				<-start
				res[k] = canonBurst(w.bootstrap(m, req))
			}(k, req)
		}
		close(start)
		wg.Wait()
		return "outs " + strings.Join(res, " ")
	case len(f) == 2 && f[0] == "chk":
		// checkBootstrapRequest alone (exported by the verif hook)
		req, ok := w.parsePayload(f[1])
		if !ok {
			return bad
		}
		if err := server.VerifCheckBootstrapRequest(w.cid, req); err != nil {
			return errOut(err)
		}
		return "ok"
	case len(f) == 2 && f[0] == "lead":
		m, ok := member(f[1])
		if !ok {
			return bad
		}
		old := w.c.WaitLeader()
		wasRunning := w.c.Srvs[old].S.GetRaftCluster() != nil
		if old != m {
			w.leadTo(m)
			w.settleLeader(m, wasRunning)
		}
		return "ok"
	case len(f) == 3 && f[0] == "isboot":
		m, ok1 := member(f[1])
		hdr, ok2 := w.header(f[2])
		if !ok1 || !ok2 {
			return bad
		}
		resp, err := w.c.Srvs[m].S.IsBootstrapped(ctx(), &pdpb.IsBootstrappedRequest{Header: hdr})
		if err != nil {
			return errOut(err)
		}
		return strconv.FormatBool(resp.GetBootstrapped())
	case len(f) == 3 && f[0] == "regfault" && (f[2] == "on" || f[2] == "off"):
		// regfault <m> on|off: member m uses its local region storage and every write of it fails
		m, ok := member(f[1])
		if !ok {
			return bad
		}
		w.regFault(m, f[2] == "on")
		return "ok"
	case len(f) == 4 && f[0] == "putconfig":
		// putconfig <m> <header id> <body id>: PutClusterConfig with a metapb.Cluster naming a cluster id
		m, ok1 := member(f[1])
		hdr, ok2 := w.header(f[2])
		body, ok3 := w.header(f[3])
		if !ok1 || !ok2 || !ok3 {
			return bad
		}
		resp, err := w.c.Srvs[m].S.PutClusterConfig(ctx(), &pdpb.PutClusterConfigRequest{Header: hdr,
			Cluster: &metapb.Cluster{Id: body.GetClusterId(), MaxPeerCount: 3}})
		if err != nil {
			return errOut(err)
		}
		if resp.GetHeader().GetError() != nil {
			return "not-bootstrapped"
		}
		return "ok"
	case len(f) == 2 && f[0] == "getconfig":
		m, ok := member(f[1])
		if !ok {
			return bad
		}
		hdr, _ := w.header("own")
		resp, err := w.c.Srvs[m].S.GetClusterConfig(ctx(), &pdpb.GetClusterConfigRequest{Header: hdr})
		if err != nil {
			return errOut(err)
		}
		if resp.GetHeader().GetError() != nil {
			return "not-bootstrapped"
		}
		switch id := resp.GetCluster().GetId(); {
		case id == w.cid:
			return "cluster=own"
		case id == 0:
			return "cluster=zero"
		}
		return "cluster=other"
	case len(f) >= 3 && f[0] == "tso":
		// tso <m> <header id>...: the requests of ONE Tso stream, in order
		m, ok := member(f[1])
		if !ok || len(f) > 18 {
			return bad
		}
		st := &tsoStream{}
		for _, h := range f[2:] {
			hdr, ok := w.header(h)
			if !ok {
				return bad
			}
			st.reqs = append(st.reqs, &pdpb.TsoRequest{Header: hdr, Count: 1, DcLocation: "global"})
		}
		done := make(chan error, 1)
		go func() { done <- w.c.Srvs[m].S.Tso(st) }()
		var err error
		select {
		case err = <-done:
		case <-time.After(20 * time.Second):
			return "stuck"
		}
		outs := make([]string, len(st.reqs))
		for i := range outs {
			switch {
			case i < st.sent:
				outs[i] = "ts"
			case i == st.sent && err != nil:
				outs[i] = errOut(err)
				if outs[i] != "err-cluster-id" {
					outs[i] = "err-tso"
				}
			default:
				outs[i] = "closed"
			}
		}
		return "tso " + strings.Join(outs, " ")
	case len(f) == 3 && f[0] == "probe":
		// other handlers with the same header: they must all treat the cluster id alike
		m, ok1 := member(f[1])
		hdr, ok2 := w.header(f[2])
		if !ok1 || !ok2 {
			return bad
		}
		s := w.c.Srvs[m].S
		outs := map[string]bool{}
		note := func(name string, err error) {
			if err == nil {
				outs["pass"] = true
				return
			}
			o := errOut(err)
			if o != "err-not-leader" && o != "err-cluster-id" {
				o = "pass" // some other error after validation
			}
			outs[o] = true
		}
		_, err := s.AllocID(ctx(), &pdpb.AllocIDRequest{Header: hdr})
		note("AllocID", err)
		_, err = s.GetStore(ctx(), &pdpb.GetStoreRequest{Header: hdr, StoreId: 1})
		note("GetStore", err)
		_, err = s.GetAllStores(ctx(), &pdpb.GetAllStoresRequest{Header: hdr})
		note("GetAllStores", err)
		_, err = s.GetRegion(ctx(), &pdpb.GetRegionRequest{Header: hdr, RegionKey: []byte("k")})
		note("GetRegion", err)
		_, err = s.GetClusterConfig(ctx(), &pdpb.GetClusterConfigRequest{Header: hdr})
		note("GetClusterConfig", err)
		_, err = s.GetGCSafePoint(ctx(), &pdpb.GetGCSafePointRequest{Header: hdr})
		note("GetGCSafePoint", err)
		_, err = s.PutStore(ctx(), &pdpb.PutStoreRequest{Header: hdr})
		note("PutStore", err)
		_, err = s.GetOperator(ctx(), &pdpb.GetOperatorRequest{Header: hdr, RegionId: 1})
		note("GetOperator", err)
		var ks []string
		for k := range outs {
			ks = append(ks, k)
		}
		sort.Strings(ks)
		return strings.Join(ks, "+")
	case len(f) == 2 && f[0] == "view":
		// what the member serves: stores and the region of the empty key, restricted to this sequence's ids
		m, ok := member(f[1])
		if !ok {
			return bad
		}
		s := w.c.Srvs[m].S
		hdr, _ := w.header("own")
		sr, err := s.GetAllStores(ctx(), &pdpb.GetAllStoresRequest{Header: hdr})
		if err != nil {
			return errOut(err)
		}
		if sr.GetHeader().GetError() != nil {
			return "not-bootstrapped"
		}
		var st []string
		for _, x := range sr.GetStores() {
			if x.GetId() > w.base && x.GetId() < w.base+idSpan {
				st = append(st, w.fromReal(x.GetId()))
			}
		}
		sort.Strings(st)
		rr, err := s.GetRegion(ctx(), &pdpb.GetRegionRequest{Header: hdr, RegionKey: []byte("")})
		if err != nil {
			return errOut(err)
		}
		reg := "-"
		if rr.GetRegion() != nil {
			reg = w.fromReal(rr.GetRegion().GetId())
		}
		if len(st) == 0 {
			st = []string{"-"}
		}
		return fmt.Sprintf("stores=%s region=%s", strings.Join(st, ","), reg)
	case len(f) == 1 && f[0] == "idnew":
		w.finishPending()
		w.idReqs, w.idVals = nil, nil
		w.idKey = fmt.Sprintf("/verif/cluster_id/%d/%d", w.seq, time.Now().UnixNano())
		return "ok"
	case len(f) == 2 && f[0] == "idstart":
		r, ok := atoi(f[1])
		if !ok || w.idKey == "" || r != len(w.idReqs) {
			return bad
		}
		cl, err := clientv3.New(clientv3.Config{Endpoints: []string{w.c.Srvs[r%len(w.c.Srvs)].Cfg.ClientUrls}, DialTimeout: 5 * time.Second})
		if err != nil {
			panic(err)
		}
		g := gcbootsrv.WrapGo(cl)
		q := &idreq{done: make(chan string, 1), client: cl}
		q.gate = &gcbootsrv.TxnGate{Parked: make(chan struct{}, 4), Release: make(chan string, 4)}
		w.idReqs = append(w.idReqs, q)
		go func() {
			g.RegisterID(gcbootsrv.GoID(), q.gate)
			v, err := server.VerifInitOrGetClusterID(cl, w.idKey)
			if err != nil {
				if strings.Contains(err.Error(), "context deadline exceeded") {
					q.done <- "err-timeout"
				} else {
					q.done <- "err"
				}
				return
			}
			q.done <- strconv.FormatUint(v, 10)
		}()
		select {
		case <-q.gate.Parked:
			q.parked = true
			return "parked"
		case res := <-q.done:
			return w.idClass(res)
		case <-time.After(30 * time.Second):
			panic("idstart: neither parked nor done")
		}
	case (len(f) == 2 || len(f) == 3) && f[0] == "idcommit":
		r, ok := atoi(f[1])
		if !ok || r < 0 || r >= len(w.idReqs) || !w.idReqs[r].parked {
			return bad
		}
		fault := "none"
		if len(f) == 3 {
			fault = f[2]
		}
		q := w.idReqs[r]
		q.gate.Release <- fault
		res := <-q.done
		q.parked = false
		return w.idClass(res)
	case len(f) == 2 && f[0] == "idburst":
		n, ok := atoi(f[1])
		if !ok || n < 1 || n > 16 || w.idKey == "" {
			return bad
		}
		res := make([]string, n)
		var wg sync.WaitGroup
		start := make(chan struct{})
		for k := 0; k < n; k++ {
			wg.Add(1)
			go func(k int) {
				defer wg.Done()
				cl := w.c.Srvs[k%len(w.c.Srvs)].S.GetClient()
				<-start
				v, err := server.VerifInitOrGetClusterID(cl, w.idKey)
				if err != nil {
					res[k] = "err"
				} else {
					res[k] = strconv.FormatUint(v, 10)
				}
			}(k)
		}
		close(start)
		wg.Wait()
		for k := range res {
			res[k] = w.idClass(res[k])
		}
		return "vals " + strings.Join(res, " ")
	case len(f) == 1 && f[0] == "idkey":
		if w.idKey == "" {
			return bad
		}
		resp, err := w.c.Raw.Get(ctx(), w.idKey)
		if err != nil {
			panic(err)
		}
		if len(resp.Kvs) == 0 {
			return "none"
		}
		v, err := typeutil.BytesToUint64(resp.Kvs[0].Value)
		if err != nil {
			return "unreadable"
		}
		return w.idClass(strconv.FormatUint(v, 10))
	}
	return bad
}

// idClass names distinct cluster id values v0, v1, ... in order of appearance (0 is called `zero`).
func (w *world) idClass(res string) string {
	if res == "err" || res == "err-timeout" {
		return res
	}
	v, _ := strconv.ParseUint(res, 10, 64)
	if v == 0 {
		return "zero"
	}
	for i, x := range w.idVals {
		if x == v {
			return fmt.Sprintf("v%d", i)
		}
	}
	w.idVals = append(w.idVals, v)
	return fmt.Sprintf("v%d", len(w.idVals)-1)
}

var traceMu sync.Mutex

func (w *world) run(t *trace.W, op string) string {
	out := w.exec(op)
	line := out + " | " + w.records()
	traceMu.Lock()
	t.Line(op, line)
	traceMu.Unlock()
	return out
}

// ---------------------------------------------------------------------------------------------
// generators

var goodPayloads = []string{"S1,R2,K00,P3@1", "S4,R5,K00,P6@4", "S7,R8,K00,P9@7", "S1,R5,K00,P9@1"}
var badPayloads = []string{
	"S-,R2,K00,P3@1", "S0,R2,K00,P3@0", "S1,R-,K00,P", "S1,R2,K10,P3@1", "S1,R2,K01,P3@1", "S1,R0,K00,P3@1",
	"S1,R2,K00,P", "S1,R2,K00,P3@1+4@1", "S1,R2,K00,P3@2", "S1,R2,K00,P0@1", "S-,R-,K00,P", "S0,R0,K11,P0@0",
}
var faults = []string{"none", "none", "none", "none", "none", "before", "after"}

func randPayload(r *rng.R) string {
	if r.Bool(2, 3) {
		return goodPayloads[r.Intn(len(goodPayloads))]
	}
	if r.Bool(3, 4) {
		return badPayloads[r.Intn(len(badPayloads))]
	}
	// free-form: mostly invalid combinations
	s := "S" + []string{"-", "0", "1", "4"}[r.Intn(4)]
	g := "R" + []string{"-", "0", "2", "5"}[r.Intn(4)]
	k := "K" + []string{"00", "00", "10", "01"}[r.Intn(4)]
	p := "P"
	for i, n := 0, r.Pick(1, 6, 2); i < n; i++ {
		if i > 0 {
			p += "+"
		}
		p += fmt.Sprintf("%d@%d", r.Intn(4), []int{0, 1, 4, 2}[r.Intn(4)])
	}
	return s + "," + g + "," + k + "," + p
}

// pickMember: mostly the leader
func pickMember(r *rng.R, leader int) int {
	if r.Bool(4, 5) {
		return leader
	}
	return 1 - leader
}

// genGrid: checkBootstrapRequest on a full grid of payload shapes
func genGrid(w *world, t *trace.W) {
	w.run(t, "reset 0")
	for _, s := range []string{"S-", "S0", "S1", "S4"} {
		for _, g := range []string{"R-", "R0", "R2"} {
			for _, k := range []string{"K00", "K10", "K01"} {
				for _, p := range []string{"P", "P3@1", "P0@1", "P3@2", "P3@1+4@1", "P3@0", "P3@4"} {
					w.run(t, fmt.Sprintf("chk %s,%s,%s,%s", s, g, k, p))
				}
			}
		}
	}
}

func randHdr(r *rng.R) string {
	switch r.Pick(8, 1, 1) {
	case 1:
		return "other"
	case 2:
		return "zero"
	}
	return "own"
}

func perms(n int) [][]int {
	if n == 1 {
		return [][]int{{0}}
	}
	var out [][]int
	for _, p := range perms(n - 1) {
		for i := 0; i <= len(p); i++ {
			q := append(append(append([]int{}, p[:i]...), n-1), p[i:]...)
			out = append(out, q)
		}
	}
	return out
}

// genOrders: every commit order of 2 and 3 gated racing requests (all started first), with a malformed
// and a foreign request mixed in.
func genOrders(w *world, t *trace.W, leader int, n int, order []int, f string) {
	w.run(t, fmt.Sprintf("reset %d", leader))
	w.run(t, fmt.Sprintf("boot 0 %d own %s", leader, badPayloads[(n+order[0])%len(badPayloads)]))
	w.run(t, fmt.Sprintf("boot 1 %d other %s", leader, goodPayloads[0]))
	for k := 0; k < n; k++ {
		w.run(t, fmt.Sprintf("boot %d %d own %s", k+2, leader, goodPayloads[k]))
	}
	for i, k := range order {
		if i == 0 && f != "none" {
			w.run(t, fmt.Sprintf("commit %d %s", k+2, f))
		} else {
			w.run(t, fmt.Sprintf("commit %d", k+2))
		}
	}
	w.run(t, fmt.Sprintf("bootnow %d own %s", leader, goodPayloads[3]))
	w.run(t, fmt.Sprintf("isboot %d own", leader))
	w.run(t, fmt.Sprintf("view %d", leader))
	// identity after bootstrap: the cluster id in header and body of a config update, on one TSO stream,
	// and what the next leader loads
	w.run(t, fmt.Sprintf("putconfig %d %s %s", leader, []string{"own", "own", "other"}[n%3], []string{"other", "zero", "own"}[(n+order[0])%3]))
	w.run(t, fmt.Sprintf("getconfig %d", leader))
	w.run(t, fmt.Sprintf("tso %d own %s own", leader, []string{"other", "zero"}[order[0]%2]))
	w.run(t, fmt.Sprintf("lead %d", 1-leader))
	w.run(t, fmt.Sprintf("getconfig %d", 1-leader))
}

// genRegFault: the winner's leader-local region storage fails to write while it bootstraps: the request must
// still be answered consistently with what is stored, and later requests see a bootstrapped cluster.
func genRegFault(w *world, t *trace.W, r *rng.R) {
	leader := r.Intn(2)
	w.run(t, fmt.Sprintf("reset %d", leader))
	w.run(t, fmt.Sprintf("regfault %d on", leader))
	a, b := r.Intn(3), 3
	if r.Bool(1, 2) {
		w.run(t, fmt.Sprintf("boot 0 %d own %s", leader, goodPayloads[a]))
		w.run(t, fmt.Sprintf("boot 1 %d own %s", leader, goodPayloads[(a+1)%3]))
		w.run(t, fmt.Sprintf("commit %d", r.Intn(2)))
		w.run(t, "commit 0")
		w.run(t, "commit 1")
	} else {
		w.run(t, fmt.Sprintf("bootnow %d own %s", leader, goodPayloads[a]))
	}
	w.run(t, fmt.Sprintf("isboot %d own", leader))
	w.run(t, fmt.Sprintf("bootnow %d own %s", leader, goodPayloads[b]))
	w.run(t, fmt.Sprintf("regfault %d off", leader))
	w.run(t, fmt.Sprintf("isboot %d own", leader))
}

func genRandom(w *world, t *trace.W, r *rng.R, maxOps int) {
	leader := r.Intn(2)
	w.run(t, fmt.Sprintf("reset %d", leader))
	ops := r.Range(4, maxOps)
	idOn := false
	for k := 0; k < ops; k++ {
		var parked []int
		for _, q := range w.reqs {
			if q.parked || q.waiting {
				parked = append(parked, q.idx)
			}
		}
		var idParked []int
		for i, q := range w.idReqs {
			if q.parked {
				idParked = append(idParked, i)
			}
		}
		switch r.Pick(22, 22, 8, 6, 6, 8, 4, 4, 14, 6, 6, 4, 5) {
		case 10:
			w.run(t, fmt.Sprintf("putconfig %d %s %s", pickMember(r, leader), randHdr(r), randHdr(r)))
		case 11:
			w.run(t, fmt.Sprintf("getconfig %d", pickMember(r, leader)))
		case 12:
			k := r.Range(1, 6)
			hs := make([]string, k)
			for i := range hs {
				hs[i] = randHdr(r)
				if i == 0 && r.Bool(2, 3) {
					hs[i] = "own"
				}
			}
			w.run(t, fmt.Sprintf("tso %d %s", pickMember(r, leader), strings.Join(hs, " ")))
		case 0:
			if len(w.reqs) < 8 {
				w.run(t, fmt.Sprintf("boot %d %d %s %s", len(w.reqs), pickMember(r, leader), randHdr(r), randPayload(r)))
			}
		case 1:
			if len(parked) > 0 {
				q := parked[r.Intn(len(parked))]
				f := faults[r.Intn(len(faults))]
				if f == "none" {
					w.run(t, fmt.Sprintf("commit %d", q))
				} else {
					w.run(t, fmt.Sprintf("commit %d %s", q, f))
				}
			}
		case 2:
			if len(parked) == 0 {
				w.run(t, fmt.Sprintf("bootnow %d %s %s", pickMember(r, leader), randHdr(r), randPayload(r)))
			}
		case 3:
			if len(parked) == 0 {
				// a parked transaction holds no lock, but a leader change waits for nothing either; keep the
				// schedule simple: leader changes while requests are parked are generated too
			}
			leader = r.Intn(2)
			w.run(t, fmt.Sprintf("lead %d", leader))
		case 4:
			w.run(t, fmt.Sprintf("isboot %d %s", r.Intn(2), randHdr(r)))
		case 5:
			if len(parked) == 0 {
				n := r.Range(2, 16)
				toks := make([]string, n)
				for i := range toks {
					toks[i] = randPayload(r)
				}
				w.run(t, fmt.Sprintf("burst %d %s", pickMember(r, leader), strings.Join(toks, " ")))
			}
		case 6:
			w.run(t, fmt.Sprintf("probe %d %s", r.Intn(2), randHdr(r)))
		case 7:
			w.run(t, fmt.Sprintf("view %d", r.Intn(2)))
		case 8:
			// cluster id race
			switch {
			case !idOn || r.Bool(1, 8):
				w.run(t, "idnew")
				idOn = true
			case len(idParked) > 0 && r.Bool(2, 3):
				q := idParked[r.Intn(len(idParked))]
				f := faults[r.Intn(len(faults))]
				if f == "none" {
					w.run(t, fmt.Sprintf("idcommit %d", q))
				} else {
					w.run(t, fmt.Sprintf("idcommit %d %s", q, f))
				}
			case len(w.idReqs) < 8 && r.Bool(2, 3):
				w.run(t, fmt.Sprintf("idstart %d", len(w.idReqs)))
			case len(idParked) == 0:
				w.run(t, fmt.Sprintf("idburst %d", r.Range(2, 8)))
			default:
				w.run(t, "idkey")
			}
		case 9:
			if idOn {
				w.run(t, "idkey")
			}
		}
	}
	// finish what is parked (or waits inside the handler)
	for round := 0; round < 2; round++ {
		for _, q := range w.reqs {
			if q.parked || q.waiting {
				w.run(t, fmt.Sprintf("commit %d", q.idx))
			}
		}
	}
	for i, q := range w.idReqs {
		if q.parked {
			w.run(t, fmt.Sprintf("idcommit %d", i))
		}
	}
	w.run(t, fmt.Sprintf("isboot %d own", leader))
	w.run(t, fmt.Sprintf("view %d", leader))
	w.run(t, fmt.Sprintf("getconfig %d", leader))
}

func main() {
	out := flag.String("out", "-", "trace file")
	replay := flag.String("replay", "", "ops file to replay instead of generating")
	n := flag.Int("n", 40, "number of random sequences")
	maxOps := flag.Int("len", 24, "max ops per sequence")
	stream := flag.Uint64("stream", 0, "PRNG stream")
	streams := flag.Uint64("streams", 1, "number of streams the enumerated orders are divided among")
	maxSec := flag.Int("maxsec", 45, "wall-clock budget of the run: the trace written so far is kept")
	flag.Parse()

	t := trace.Create(*out)
	// every wait is bounded by this budget: the trace written so far is judged
	time.AfterFunc(time.Duration(*maxSec)*time.Second, func() {
		traceMu.Lock()
		t.Comment("wall-clock budget used up")
		t.Close()
		os.Exit(0)
	})
	w := newWorld()
	defer w.c.Stop()
	defer func() { traceMu.Lock(); t.Close(); traceMu.Unlock() }()
	if *replay != "" {
		for _, op := range trace.ReadOps(*replay) {
			w.run(t, op)
		}
		w.finishPending()
		return
	}
	r := rng.FromEnv(*stream)
	cnt := uint64(0)
	if *stream%*streams == 0 {
		genGrid(w, t)
	}
	for _, nreq := range []int{2, 3} {
		for _, order := range perms(nreq) {
			for _, f := range []string{"none", "before", "after"} {
				if cnt%*streams == *stream%*streams {
					genOrders(w, t, int(cnt)%2, nreq, order, f)
				}
				cnt++
			}
		}
	}
	for s := 0; s < *n; s++ {
		if s%8 == 0 {
			genRegFault(w, t, r)
		}
		genRandom(w, t, r, *maxOps)
	}
	w.finishPending()
}
