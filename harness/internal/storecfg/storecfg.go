// Package storecfg holds what the storefsm (C14) and config (C18) harnesses share: an in-process
// PD server and a fault-injecting kv.Base wrapper for core.Storage.Base.
package storecfg

import (
	"context"
	"errors"
	"fmt"
	"os"
	"runtime"
	"strconv"
	"strings"
	"sync"
	"time"

	"github.com/pingcap/check"
	"github.com/pingcap/kvproto/pkg/metapb"
	"github.com/pingcap/kvproto/pkg/pdpb"
	"github.com/pingcap/log"
	"github.com/tikv/pd/server"
	"github.com/tikv/pd/server/kv"
	"go.uber.org/zap"
	"go.uber.org/zap/zapcore"
)

// ErrInjected is returned by a write the harness made fail.
var ErrInjected = errors.New("verif: injected storage failure")

// Write is one relevant write seen by FailKV.
type Write struct {
	Key    string
	Remove bool
	Failed bool
}

// FailKV wraps a kv.Base.  Writes (Save/Remove) whose key satisfies Relevant are numbered from 0
// since the last Arm; write number i fails (without taking effect) iff bit i of the mask is set.
type FailKV struct {
	kv.Base
	Relevant func(key string) bool

	mu   sync.Mutex
	mask uint64
	n    uint
	log  []Write

	// gate: the next relevant write issued by a goroutine other than skip parks until Release
	armed   bool
	skip    int64
	parked  chan struct{}
	release chan struct{}
}

// GoID returns the id of the calling goroutine (parsed from its stack header; used only to tell the
// writes of two concurrently running operations apart).
func GoID() int64 {
	var buf [64]byte
	n := runtime.Stack(buf[:], false)
	f := strings.Fields(string(buf[:n]))
	if len(f) < 2 {
		return -1
	}
	id, _ := strconv.ParseInt(f[1], 10, 64)
	return id
}

// ArmPark makes the next relevant write of any goroutine except skip (0: none excepted) wait, after it
// has been logged and before it takes effect.  The returned channel is closed when a write has parked;
// the returned function lets that write go on.
func (f *FailKV) ArmPark(skip int64) (<-chan struct{}, func()) {
	f.mu.Lock()
	defer f.mu.Unlock()
	f.armed, f.skip = true, skip
	f.parked, f.release = make(chan struct{}), make(chan struct{})
	rel := f.release
	var once sync.Once
	return f.parked, func() { once.Do(func() { close(rel) }) }
}

// Disarm cancels an ArmPark that has not parked anything.
func (f *FailKV) Disarm() {
	f.mu.Lock()
	f.armed = false
	f.mu.Unlock()
}

// Arm starts a new numbering with the given mask and clears the log.
func (f *FailKV) Arm(mask uint64) {
	f.mu.Lock()
	f.mask, f.n, f.log = mask, 0, nil
	f.mu.Unlock()
}

// Log returns the relevant writes since the last Arm.
func (f *FailKV) Log() []Write {
	f.mu.Lock()
	defer f.mu.Unlock()
	return append([]Write(nil), f.log...)
}

func (f *FailKV) decide(key string, remove bool) bool {
	if f.Relevant == nil || !f.Relevant(key) {
		return false
	}
	f.mu.Lock()
	defer f.mu.Unlock()
	fail := f.n < 64 && f.mask>>f.n&1 == 1
	f.n++
	f.log = append(f.log, Write{Key: key, Remove: remove, Failed: fail})
	if f.armed && (f.skip == 0 || GoID() != f.skip) {
		f.armed = false
		rel := f.release
		close(f.parked)
		f.mu.Unlock()
		<-rel
		f.mu.Lock()
	}
	return fail
}

// Save implements kv.Base.
func (f *FailKV) Save(key, value string) error {
	if f.decide(key, false) {
		return ErrInjected
	}
	return f.Base.Save(key, value)
}

// Remove implements kv.Base.
func (f *FailKV) Remove(key string) error {
	if f.decide(key, true) {
		return ErrInjected
	}
	return f.Base.Remove(key)
}

// IsInjected reports whether err comes from an injected failure.
func IsInjected(err error) bool {
	return err != nil && (errors.Is(err, ErrInjected) || strings.Contains(err.Error(), ErrInjected.Error()))
}

// Quiet silences pd's global logger (again: NewTestSingleConfig installs its own), except for fatal
// messages: pd turns a panic of one of its goroutines into log.Fatal, i.e. a silent exit otherwise.
func Quiet() {
	core := zapcore.NewCore(zapcore.NewConsoleEncoder(zap.NewDevelopmentEncoderConfig()), zapcore.Lock(os.Stderr), zapcore.FatalLevel)
	log.ReplaceGlobals(zap.New(core, zap.AddStacktrace(zapcore.FatalLevel)), &log.ZapProperties{})
}

// Server is one in-process PD server that is leader and (optionally) bootstrapped.
type Server struct {
	Svr    *server.Server
	Cancel context.CancelFunc
	dir    string
}

// StartServer creates and runs a single-member PD server and waits until it leads.
func StartServer(bootstrap bool) *Server {
	// Every step is bounded and the whole start is retried with fresh ports: server.Run waits up to five
	// minutes for its embedded etcd, which is what happens when two harness processes were handed the same
	// free port by tempurl.Alloc at the same moment.
	var last interface{}
	for attempt := 0; attempt < 4; attempt++ {
		s, err := tryStart(bootstrap, 40*time.Second)
		if err == nil {
			return s
		}
		last = err
		fmt.Fprintf(os.Stderr, "harness: PD server start attempt %d failed: %v\n", attempt, err)
	}
	panic(fmt.Sprint("harness: could not start the in-process PD server: ", last))
}

func tryStart(bootstrap bool, limit time.Duration) (*Server, error) {
	cfg := server.NewTestSingleConfig(&check.C{})
	server.EtcdStartTimeout = limit // (an exported variable of pd, five minutes by default)
	// the test configuration has a 1 s leader lease: under CPU contention (many harnesses in parallel) the
	// server would lose and regain leadership in the middle of a sequence
	cfg.LeaderLease = 60
	// the embedded etcd logs through cfg's logger: keep only fatal messages
	cfg.Log.Level = "fatal"
	if err := cfg.SetupLogger(); err != nil {
		return nil, err
	}
	Quiet()
	ctx, cancel := context.WithCancel(context.Background())
	deadline := time.Now().Add(limit)
	type started struct {
		svr *server.Server
		err error
	}
	ch := make(chan started, 1)
	go func() {
		svr, err := server.CreateServer(ctx, cfg)
		if err == nil {
			err = svr.Run()
		}
		ch <- started{svr, err}
	}()
	fail := func(svr *server.Server, err error) (*Server, error) {
		cancel()
		if svr != nil {
			go svr.Close() // may itself hang: not waited for
		}
		os.RemoveAll(cfg.DataDir)
		return nil, err
	}
	var svr *server.Server
	select {
	case st := <-ch:
		if st.err != nil {
			return fail(st.svr, st.err)
		}
		svr = st.svr
	case <-time.After(limit):
		return fail(nil, errors.New("server.Run did not return in time"))
	}
	Quiet()
	for !svr.GetMember().IsLeader() {
		if time.Now().After(deadline) {
			return fail(svr, errors.New("the server did not become leader in time"))
		}
		time.Sleep(20 * time.Millisecond)
	}
	s := &Server{Svr: svr, Cancel: cancel, dir: cfg.DataDir}
	if bootstrap {
		req := &pdpb.BootstrapRequest{
			Header: &pdpb.RequestHeader{ClusterId: svr.ClusterID()},
			Store:  &metapb.Store{Id: 1, Address: "boot:1"},
			Region: &metapb.Region{Id: 2, Peers: []*metapb.Peer{{Id: 3, StoreId: 1}},
				RegionEpoch: &metapb.RegionEpoch{ConfVer: 1, Version: 1}},
		}
		bctx, bcancel := context.WithTimeout(ctx, 20*time.Second)
		resp, err := svr.Bootstrap(bctx, req)
		bcancel()
		if err != nil || resp.GetHeader().GetError() != nil {
			return fail(svr, fmt.Errorf("bootstrap failed: %v %v", err, resp.GetHeader().GetError()))
		}
		for svr.GetRaftCluster() == nil {
			if time.Now().After(deadline.Add(20 * time.Second)) {
				return fail(svr, errors.New("the raft cluster did not start in time"))
			}
			time.Sleep(10 * time.Millisecond)
		}
	}
	return s, nil
}

// MustLead aborts the harness (exit code 3, bin/check retries once) when the server is no longer leader:
// that is an accident of the environment, not an observation of the code under test.
func (s *Server) MustLead(withCluster bool) {
	// (GetRaftCluster takes the cluster's read lock: not while an operation is parked under the write lock)
	if !s.Svr.GetMember().IsLeader() || (withCluster && s.Svr.GetRaftCluster() == nil) {
		fmt.Fprintln(os.Stderr, "harness: the in-process PD server lost its leadership; aborting")
		os.Exit(3)
	}
}

// Header returns a request header for this server's cluster.
func (s *Server) Header() *pdpb.RequestHeader {
	return &pdpb.RequestHeader{ClusterId: s.Svr.ClusterID()}
}

// Abandon is for the end of the harness process: the trace is written, nothing is gained by a graceful
// shutdown (which occasionally hangs, or panics in one of pd's goroutines): only the data directory goes.
func (s *Server) Abandon() {
	if s.dir != "" {
		os.RemoveAll(s.dir)
	}
}

// Stop closes the server and removes its data directory.
func (s *Server) Stop() {
	done := make(chan struct{})
	go func() {
		s.Svr.Close()
		s.Cancel()
		close(done)
	}()
	select {
	case <-done:
	case <-time.After(15 * time.Second):
		// pd's shutdown occasionally waits for ever on one of its goroutines; the harness must still exit
		fmt.Fprintln(os.Stderr, "harness: PD server did not shut down within 15 s; leaving it behind")
	}
	if s.dir != "" {
		os.RemoveAll(s.dir)
	}
}
