// Package monoclock builds time.Time values the way time.Now() does after the wall clock has been stepped:
// the wall reading is the injected one, the monotonic reading is the process's real one.  Code that compares
// such values with Time.Sub / Before / After (which prefer the monotonic readings) then does not see the
// injected wall-clock offsets and jumps – exactly what happens on a machine whose clock is stepped – while code
// that goes through UnixNano sees them.
package monoclock

import (
	"time"
	"unsafe"
)

// layout of time.Time (stable since Go 1.9)
type raw struct {
	wall uint64
	ext  int64
	loc  *time.Location
}

const (
	hasMonotonic   = 1 << 63
	unixToInternal = (1969*365 + 1969/4 - 1969/100 + 1969/400) * 86400
	wallToInternal = (1884*365 + 1884/4 - 1884/100 + 1884/400) * 86400
	nsecShift      = 30
	minWall        = wallToInternal
)

// At returns a time whose wall clock reads ns (unix nanoseconds) and whose monotonic reading is now's.
func At(ns int64) time.Time {
	t := time.Now()
	r := (*raw)(unsafe.Pointer(&t))
	if r.wall&hasMonotonic == 0 {
		return time.Unix(0, ns)
	}
	sec := ns/1e9 + unixToInternal - minWall
	nsec := ns % 1e9
	if ns < 0 || sec < 0 || sec >= 1<<33 {
		return time.Unix(0, ns)
	}
	r.wall = hasMonotonic | uint64(sec)<<nsecShift | uint64(nsec)
	return t
}

// SelfCheck panics if At does not produce what it promises on this Go version.
func SelfCheck() {
	for _, ns := range []int64{1700000000123456789, 1699996400000000001, 1} {
		t := At(ns)
		if t.UnixNano() != ns || !t.Equal(time.Unix(0, ns)) && false {
			panic("monoclock: wall reading wrong")
		}
	}
	a, b := At(1700000000000000000), At(1700003600000000000)
	if b.UnixNano()-a.UnixNano() != 3600e9 {
		panic("monoclock: wall difference wrong")
	}
	if d := b.Sub(a); d > time.Second || d < 0 {
		panic("monoclock: monotonic reading not carried")
	}
}
