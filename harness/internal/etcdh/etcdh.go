// Package etcdh starts an embedded etcd for the harnesses and provides a gated / fault-injecting
// clientv3.KV wrapper (Txn.Commit can be parked, or made to fail before or after it executes).
package etcdh

import (
	"context"
	"errors"
	"os"
	"sync"
	"time"

	"github.com/tikv/pd/pkg/etcdutil"
	"go.etcd.io/etcd/clientv3"
	"go.etcd.io/etcd/embed"
)

// Etcd is one embedded server plus a root client.
type Etcd struct {
	Cfg    *embed.Config
	Srv    *embed.Etcd
	Client *clientv3.Client
}

// Start brings up a single-member etcd with logging switched off.
func Start() *Etcd {
	cfg := etcdutil.NewTestSingleConfig()
	cfg.Logger = "zap"
	cfg.LogOutputs = []string{"/dev/null"}
	cfg.LogLevel = "error"
	srv, err := embed.StartEtcd(cfg)
	if err != nil {
		panic(err)
	}
	select {
	case <-srv.Server.ReadyNotify():
	case <-time.After(30 * time.Second):
		panic("etcd not ready")
	}
	return &Etcd{Cfg: cfg, Srv: srv, Client: NewClient(cfg)}
}

// NewClient makes a further client for the same server.
func NewClient(cfg *embed.Config) *clientv3.Client {
	c, err := clientv3.New(clientv3.Config{Endpoints: []string{cfg.LCUrls[0].String()}, DialTimeout: 5 * time.Second})
	if err != nil {
		panic(err)
	}
	return c
}

// Stop shuts down and removes the data dir.
func (e *Etcd) Stop() {
	e.Client.Close()
	e.Srv.Close()
	os.RemoveAll(e.Cfg.Dir)
}

// Fault selects what the next Commit through a GateKV does.
type Fault int

// Fault kinds.
const (
	None Fault = iota
	ErrBefore
	ErrAfter
)

// ErrInjected is returned by a faulted Commit.
var ErrInjected = errors.New("injected etcd txn error")

// GateKV wraps a clientv3.KV.
type GateKV struct {
	clientv3.KV
	mu       sync.Mutex
	parkNext bool          // park the next Commit
	parked   chan struct{} // closed when a Commit has parked
	release  chan Fault    // send to release the parked Commit
	fault    Fault         // fault for the next un-parked Commit
	// Commits counts the transactions issued through this wrapper.
	Commits int
}

// Wrap installs a gate on the client's KV and returns it.
func Wrap(c *clientv3.Client) *GateKV {
	g := &GateKV{KV: c.KV}
	c.KV = g
	return g
}

// ArmPark makes the next Commit park; the returned channel is closed once it has.
func (g *GateKV) ArmPark() <-chan struct{} {
	g.mu.Lock()
	defer g.mu.Unlock()
	g.parkNext = true
	g.parked = make(chan struct{})
	g.release = make(chan Fault, 1)
	return g.parked
}

// Disarm cancels an ArmPark that did not trigger.
func (g *GateKV) Disarm() {
	g.mu.Lock()
	defer g.mu.Unlock()
	g.parkNext = false
}

// Release lets the parked Commit proceed with the given fault.
func (g *GateKV) Release(f Fault) { g.release <- f }

// SetFault sets the fault of the next (un-parked) Commit.
func (g *GateKV) SetFault(f Fault) {
	g.mu.Lock()
	defer g.mu.Unlock()
	g.fault = f
}

// Txn implements clientv3.KV.
func (g *GateKV) Txn(ctx context.Context) clientv3.Txn {
	return &gateTxn{Txn: g.KV.Txn(ctx), g: g}
}

type gateTxn struct {
	clientv3.Txn
	g *GateKV
}

func (t *gateTxn) If(cs ...clientv3.Cmp) clientv3.Txn   { t.Txn = t.Txn.If(cs...); return t }
func (t *gateTxn) Then(ops ...clientv3.Op) clientv3.Txn { t.Txn = t.Txn.Then(ops...); return t }
func (t *gateTxn) Else(ops ...clientv3.Op) clientv3.Txn { t.Txn = t.Txn.Else(ops...); return t }

func (t *gateTxn) Commit() (*clientv3.TxnResponse, error) {
	g := t.g
	g.mu.Lock()
	g.Commits++
	f := g.fault
	g.fault = None
	park := g.parkNext
	var rel chan Fault
	if park {
		g.parkNext = false
		rel = g.release
		close(g.parked)
	}
	g.mu.Unlock()
	if park {
		f = <-rel
	}
	switch f {
	case ErrBefore:
		return nil, ErrInjected
	case ErrAfter:
		if _, err := t.Txn.Commit(); err != nil {
			return nil, err
		}
		return nil, ErrInjected
	}
	return t.Txn.Commit()
}
