package opsim

import (
	"fmt"
	"strings"

	"github.com/pingcap/kvproto/pkg/eraftpb"
	"github.com/pingcap/kvproto/pkg/metapb"
	"github.com/pingcap/kvproto/pkg/pdpb"
	"github.com/tikv/pd/server/core"
)

// Sim is a faithful store: the region as its leader knows it, and how it reacts to the commands
// PD sends (twin of PdModel/Model/StoreSim.lean; the driver compares the two on every exec event).
type Sim struct {
	ID      uint64
	Peers   []*metapb.Peer
	Leader  uint64
	ConfVer uint64
	Version uint64
	Pending []uint64 // peer ids
	Range   uint64
}

// Region renders the simulated region as a core.RegionInfo (what a heartbeat would carry).
func (s *Sim) Region() *core.RegionInfo {
	peers := make([]*metapb.Peer, len(s.Peers))
	for i, p := range s.Peers {
		q := *p
		peers[i] = &q
	}
	var pendStores []uint64
	for _, id := range s.Pending {
		for _, p := range peers {
			if p.GetId() == id {
				pendStores = append(pendStores, p.GetStoreId())
			}
		}
	}
	start, end := fmt.Sprintf("k%04d.%d", s.ID, s.Range), fmt.Sprintf("k%04d.%d~", s.ID, s.Range)
	return MakeRegion(s.ID, s.ConfVer, s.Version, peers, s.Leader, pendStores, start, end)
}

// Text is `<peers>@<leader> cv=<n> v=<n> pend=<ids> range=<n>`.
func (s *Sim) Text() string {
	p := make([]string, len(s.Pending))
	for i, x := range s.Pending {
		p[i] = fmt.Sprint(x)
	}
	pend := "-"
	if len(p) > 0 {
		pend = strings.Join(p, ",")
	}
	return fmt.Sprintf("%s@%d cv=%d v=%d pend=%s range=%d", PeersText(s.Peers, ","), s.Leader, s.ConfVer, s.Version, pend, s.Range)
}

func (s *Sim) storePeer(store uint64) *metapb.Peer {
	for _, p := range s.Peers {
		if p.GetStoreId() == store {
			return p
		}
	}
	return nil
}

func (s *Sim) peerByID(id uint64) *metapb.Peer {
	for _, p := range s.Peers {
		if p.GetId() == id {
			return p
		}
	}
	return nil
}

func (s *Sim) inJoint() bool { return core.IsInJointState(s.Peers...) }

// Exec executes one command (see StoreSim.exec for the rules).
func (s *Sim) Exec(m *pdpb.RegionHeartbeatResponse) {
	if m.GetRegionId() != s.ID || m.GetTargetPeer().GetStoreId() != s.Leader || s.Leader == 0 {
		return
	}
	epochOK := m.GetRegionEpoch().GetConfVer() == s.ConfVer && m.GetRegionEpoch().GetVersion() == s.Version
	switch {
	case m.GetTransferLeader() != nil:
		peer := m.GetTransferLeader().GetPeer()
		if p := s.peerByID(peer.GetId()); p != nil && p.GetStoreId() == peer.GetStoreId() &&
			(p.GetRole() == metapb.PeerRole_Voter || p.GetRole() == metapb.PeerRole_IncomingVoter) {
			s.Leader = p.GetStoreId()
		}
	case m.GetChangePeer() != nil:
		cp := m.GetChangePeer()
		store, id := cp.GetPeer().GetStoreId(), cp.GetPeer().GetId()
		p := s.peerByID(id)
		switch cp.GetChangeType() {
		case eraftpb.ConfChangeType_AddNode:
			if p != nil {
				if p.GetStoreId() == store && p.GetRole() == metapb.PeerRole_Learner && !s.inJoint() && epochOK {
					p.Role = metapb.PeerRole_Voter
					s.ConfVer++
				}
			} else if s.storePeer(store) == nil && !s.inJoint() && epochOK {
				s.Peers = append(s.Peers, &metapb.Peer{StoreId: store, Id: id, Role: metapb.PeerRole_Voter})
				s.ConfVer++
				s.Pending = append(s.Pending, id)
			}
		case eraftpb.ConfChangeType_AddLearnerNode:
			if p != nil {
				if p.GetStoreId() == store && p.GetRole() == metapb.PeerRole_Voter && store != s.Leader && !s.inJoint() && epochOK {
					p.Role = metapb.PeerRole_Learner
					s.ConfVer++
				}
			} else if s.storePeer(store) == nil && !s.inJoint() && epochOK {
				s.Peers = append(s.Peers, &metapb.Peer{StoreId: store, Id: id, Role: metapb.PeerRole_Learner})
				s.ConfVer++
				s.Pending = append(s.Pending, id)
			}
		case eraftpb.ConfChangeType_RemoveNode:
			if p != nil && p.GetStoreId() == store && store != s.Leader && !s.inJoint() && epochOK {
				var ps []*metapb.Peer
				for _, q := range s.Peers {
					if q.GetStoreId() != store {
						ps = append(ps, q)
					}
				}
				s.Peers = ps
				var pend []uint64
				for _, x := range s.Pending {
					if x != id {
						pend = append(pend, x)
					}
				}
				s.Pending = pend
				s.ConfVer++
			}
		}
	case m.GetChangePeerV2() != nil:
		changes := m.GetChangePeerV2().GetChanges()
		if len(changes) == 0 {
			// leave
			if !s.inJoint() || !epochOK {
				return
			}
			lp := s.storePeer(s.Leader)
			if lp == nil || lp.GetRole() == metapb.PeerRole_DemotingVoter {
				return
			}
			k := uint64(core.CountInJointState(s.Peers...))
			for _, q := range s.Peers {
				switch q.GetRole() {
				case metapb.PeerRole_IncomingVoter:
					q.Role = metapb.PeerRole_Voter
				case metapb.PeerRole_DemotingVoter:
					q.Role = metapb.PeerRole_Learner
				}
			}
			s.ConfVer += k
			return
		}
		if s.inJoint() || !epochOK {
			return
		}
		for _, c := range changes {
			p := s.storePeer(c.GetPeer().GetStoreId())
			if p == nil || p.GetId() != c.GetPeer().GetId() {
				return
			}
			if c.GetChangeType() == eraftpb.ConfChangeType_AddNode && p.GetRole() != metapb.PeerRole_Learner {
				return
			}
			if c.GetChangeType() == eraftpb.ConfChangeType_AddLearnerNode && p.GetRole() != metapb.PeerRole_Voter {
				return
			}
		}
		// promotes first, then demotes (a store named twice ends up demoting, as in the model)
		for _, c := range changes {
			if c.GetChangeType() == eraftpb.ConfChangeType_AddNode {
				for _, q := range s.Peers {
					if q.GetStoreId() == c.GetPeer().GetStoreId() {
						q.Role = metapb.PeerRole_IncomingVoter
					}
				}
			}
		}
		for _, c := range changes {
			if c.GetChangeType() == eraftpb.ConfChangeType_AddLearnerNode {
				for _, q := range s.Peers {
					if q.GetStoreId() == c.GetPeer().GetStoreId() {
						q.Role = metapb.PeerRole_DemotingVoter
					}
				}
			}
		}
		s.ConfVer += uint64(len(changes))
	}
}

// MsgText renders a heartbeat response: `<region>/<confver>.<version>/<target store>/<cmd>`.
func MsgText(m *pdpb.RegionHeartbeatResponse) string {
	cmd := "?"
	item := func(p *metapb.Peer) string { return fmt.Sprintf("%d#%d", p.GetStoreId(), p.GetId()) }
	switch {
	case m.GetTransferLeader() != nil:
		cmd = "tl:" + item(m.GetTransferLeader().GetPeer())
	case m.GetChangePeer() != nil:
		switch m.GetChangePeer().GetChangeType() {
		case eraftpb.ConfChangeType_AddNode:
			cmd = "an:" + item(m.GetChangePeer().GetPeer())
		case eraftpb.ConfChangeType_AddLearnerNode:
			cmd = "aln:" + item(m.GetChangePeer().GetPeer())
		case eraftpb.ConfChangeType_RemoveNode:
			cmd = "rn:" + item(m.GetChangePeer().GetPeer())
		}
	case m.GetMerge() != nil:
		cmd = "mg"
	case m.GetSplitRegion() != nil:
		cmd = "sp"
	case m.GetChangePeerV2() != nil:
		ch := m.GetChangePeerV2().GetChanges()
		if len(ch) == 0 {
			cmd = "lv"
		} else {
			var a, b []string
			for _, c := range ch {
				if c.GetChangeType() == eraftpb.ConfChangeType_AddNode {
					a = append(a, item(c.GetPeer()))
				} else {
					b = append(b, item(c.GetPeer()))
				}
			}
			cmd = "v2:" + strings.Join(a, "+") + "/" + strings.Join(b, "+")
		}
	}
	return fmt.Sprintf("%d/%d.%d/%d/%s", m.GetRegionId(), m.GetRegionEpoch().GetConfVer(),
		m.GetRegionEpoch().GetVersion(), m.GetTargetPeer().GetStoreId(), cmd)
}
