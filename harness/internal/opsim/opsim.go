// Package opsim holds what the builder (C08) and opctl (C09) harnesses share: the text form of
// peers and operator steps (the same as PdModel.Steps.*text in Lean), a mock cluster with a
// controllable id allocator and store states, and a faithful store simulator that executes the
// commands PD sends (it never re-implements pd code: CheckSafety, IsFinish, ConfVerChanged are
// always the real methods).
package opsim

import (
	"context"
	"errors"
	"fmt"
	"sort"
	"strconv"
	"strings"
	"time"

	"github.com/pingcap/kvproto/pkg/metapb"
	"github.com/tikv/pd/pkg/mock/mockcluster"
	"github.com/tikv/pd/server/config"
	"github.com/tikv/pd/server/core"
	"github.com/tikv/pd/server/schedule/operator"
	"github.com/tikv/pd/server/schedule/opt"
	"github.com/tikv/pd/server/schedule/placement"
	"github.com/tikv/pd/server/versioninfo"
)

// ---------------------------------------------------------------------------------------------
// text forms

var roleLetters = map[metapb.PeerRole]string{
	metapb.PeerRole_Voter: "v", metapb.PeerRole_Learner: "l",
	metapb.PeerRole_IncomingVoter: "i", metapb.PeerRole_DemotingVoter: "d",
}

// PeerText renders <store><role letter><id>.
func PeerText(p *metapb.Peer) string {
	return fmt.Sprintf("%d%s%d", p.GetStoreId(), roleLetters[p.GetRole()], p.GetId())
}

// PeersText renders a comma separated peer list ("-" when empty).
func PeersText(ps []*metapb.Peer, sep string) string {
	if len(ps) == 0 {
		return "-"
	}
	s := make([]string, len(ps))
	for i, p := range ps {
		s[i] = PeerText(p)
	}
	return strings.Join(s, sep)
}

// ParsePeer parses <store><role letter><id>.
func ParsePeer(s string) (*metapb.Peer, error) {
	i := strings.IndexAny(s, "vlid")
	if i <= 0 || i == len(s)-1 {
		return nil, fmt.Errorf("bad peer %q", s)
	}
	st, err1 := strconv.ParseUint(s[:i], 10, 64)
	id, err2 := strconv.ParseUint(s[i+1:], 10, 64)
	if err1 != nil || err2 != nil {
		return nil, fmt.Errorf("bad peer %q", s)
	}
	var role metapb.PeerRole
	switch s[i] {
	case 'v':
		role = metapb.PeerRole_Voter
	case 'l':
		role = metapb.PeerRole_Learner
	case 'i':
		role = metapb.PeerRole_IncomingVoter
	case 'd':
		role = metapb.PeerRole_DemotingVoter
	}
	return &metapb.Peer{StoreId: st, Id: id, Role: role}, nil
}

// ParsePeers parses a list separated by sep; "-" or "" is the empty list.
func ParsePeers(s, sep string) ([]*metapb.Peer, error) {
	if s == "-" || s == "" {
		return nil, nil
	}
	var res []*metapb.Peer
	for _, x := range strings.Split(s, sep) {
		p, err := ParsePeer(x)
		if err != nil {
			return nil, err
		}
		res = append(res, p)
	}
	return res, nil
}

// ParseIDs parses a list of numbers separated by sep; "-" or "" is the empty list.
func ParseIDs(s, sep string) []uint64 {
	if s == "-" || s == "" {
		return nil
	}
	var res []uint64
	for _, x := range strings.Split(s, sep) {
		n, _ := strconv.ParseUint(x, 10, 64)
		res = append(res, n)
	}
	return res
}

func itemsText(pl []operator.PromoteLearner, dv []operator.DemoteVoter, ren func(uint64) uint64) string {
	a := make([]string, len(pl))
	for i, p := range pl {
		a[i] = fmt.Sprintf("%d#%d", p.ToStore, ren(p.PeerID))
	}
	b := make([]string, len(dv))
	for i, d := range dv {
		b[i] = fmt.Sprintf("%d#%d", d.ToStore, ren(d.PeerID))
	}
	return strings.Join(a, "+") + "/" + strings.Join(b, "+")
}

// StepText renders one step; ren renames peer ids (identity when nil).
func StepText(s operator.OpStep, ren func(uint64) uint64) string {
	if ren == nil {
		ren = func(x uint64) uint64 { return x }
	}
	switch st := s.(type) {
	case operator.TransferLeader:
		return fmt.Sprintf("tl:%d>%d", st.FromStore, st.ToStore)
	case operator.AddPeer:
		return fmt.Sprintf("ap:%d#%d", st.ToStore, ren(st.PeerID))
	case operator.AddLightPeer:
		return fmt.Sprintf("alp:%d#%d", st.ToStore, ren(st.PeerID))
	case operator.AddLearner:
		return fmt.Sprintf("al:%d#%d", st.ToStore, ren(st.PeerID))
	case operator.AddLightLearner:
		return fmt.Sprintf("all:%d#%d", st.ToStore, ren(st.PeerID))
	case operator.PromoteLearner:
		return fmt.Sprintf("pl:%d#%d", st.ToStore, ren(st.PeerID))
	case operator.DemoteFollower:
		return fmt.Sprintf("df:%d#%d", st.ToStore, ren(st.PeerID))
	case operator.RemovePeer:
		return fmt.Sprintf("rm:%d#%d", st.FromStore, ren(st.PeerID))
	case operator.ChangePeerV2Enter:
		return "en:" + itemsText(st.PromoteLearners, st.DemoteVoters, ren)
	case operator.ChangePeerV2Leave:
		return "lv:" + itemsText(st.PromoteLearners, st.DemoteVoters, ren)
	case operator.MergeRegion:
		if st.IsPassive {
			return "mg:1"
		}
		return "mg:0"
	case operator.SplitRegion:
		return "split"
	}
	return fmt.Sprintf("unknown:%T", s)
}

// StepsText renders the steps of an operator ("-" when there is none).
func StepsText(op *operator.Operator, ren func(uint64) uint64) string {
	if op.Len() == 0 {
		return "-"
	}
	s := make([]string, op.Len())
	for i := 0; i < op.Len(); i++ {
		s[i] = StepText(op.Step(i), ren)
	}
	return strings.Join(s, ",")
}

func parseItem(s string) (uint64, uint64, error) {
	i := strings.Index(s, "#")
	if i < 0 {
		return 0, 0, fmt.Errorf("bad item %q", s)
	}
	a, err1 := strconv.ParseUint(s[:i], 10, 64)
	b, err2 := strconv.ParseUint(s[i+1:], 10, 64)
	if err1 != nil || err2 != nil {
		return 0, 0, fmt.Errorf("bad item %q", s)
	}
	return a, b, nil
}

func parseItems(s string) ([]operator.PromoteLearner, []operator.DemoteVoter, error) {
	i := strings.Index(s, "/")
	if i < 0 {
		return nil, nil, fmt.Errorf("bad items %q", s)
	}
	pl := []operator.PromoteLearner{}
	dv := []operator.DemoteVoter{}
	if s[:i] != "" {
		for _, x := range strings.Split(s[:i], "+") {
			a, b, err := parseItem(x)
			if err != nil {
				return nil, nil, err
			}
			pl = append(pl, operator.PromoteLearner{ToStore: a, PeerID: b})
		}
	}
	if s[i+1:] != "" {
		for _, x := range strings.Split(s[i+1:], "+") {
			a, b, err := parseItem(x)
			if err != nil {
				return nil, nil, err
			}
			dv = append(dv, operator.DemoteVoter{ToStore: a, PeerID: b})
		}
	}
	return pl, dv, nil
}

// ParseStep is the inverse of StepText (merge/split steps get the regions given).
func ParseStep(s string, from, to *metapb.Region) (operator.OpStep, error) {
	i := strings.Index(s, ":")
	kind, arg := s, ""
	if i >= 0 {
		kind, arg = s[:i], s[i+1:]
	}
	switch kind {
	case "tl":
		j := strings.Index(arg, ">")
		if j < 0 {
			return nil, fmt.Errorf("bad step %q", s)
		}
		a, _ := strconv.ParseUint(arg[:j], 10, 64)
		b, _ := strconv.ParseUint(arg[j+1:], 10, 64)
		return operator.TransferLeader{FromStore: a, ToStore: b}, nil
	case "ap", "alp", "al", "all", "pl", "df", "rm":
		a, b, err := parseItem(arg)
		if err != nil {
			return nil, err
		}
		switch kind {
		case "ap":
			return operator.AddPeer{ToStore: a, PeerID: b}, nil
		case "alp":
			return operator.AddLightPeer{ToStore: a, PeerID: b}, nil
		case "al":
			return operator.AddLearner{ToStore: a, PeerID: b}, nil
		case "all":
			return operator.AddLightLearner{ToStore: a, PeerID: b}, nil
		case "pl":
			return operator.PromoteLearner{ToStore: a, PeerID: b}, nil
		case "df":
			return operator.DemoteFollower{ToStore: a, PeerID: b}, nil
		default:
			return operator.RemovePeer{FromStore: a, PeerID: b}, nil
		}
	case "en", "lv":
		pl, dv, err := parseItems(arg)
		if err != nil {
			return nil, err
		}
		if kind == "en" {
			return operator.ChangePeerV2Enter{PromoteLearners: pl, DemoteVoters: dv}, nil
		}
		return operator.ChangePeerV2Leave{PromoteLearners: pl, DemoteVoters: dv}, nil
	case "mg":
		return operator.MergeRegion{FromRegion: from, ToRegion: to, IsPassive: arg == "1"}, nil
	case "split":
		return operator.SplitRegion{StartKey: from.GetStartKey(), EndKey: from.GetEndKey()}, nil
	}
	return nil, fmt.Errorf("bad step %q", s)
}

// ---------------------------------------------------------------------------------------------
// cluster

// Cluster is a mockcluster whose id allocator is an input of the op.
type Cluster struct {
	*mockcluster.Cluster
	Nid    uint64 // next id to hand out; 0 = AllocID fails
	Allocs int
}

var _ opt.Cluster = (*Cluster)(nil)

// AllocID hands out Nid, Nid+1, ... or fails when Nid is 0.
func (c *Cluster) AllocID() (uint64, error) {
	if c.Nid == 0 {
		return 0, errors.New("injected: id allocation failed")
	}
	id := c.Nid
	c.Nid++
	c.Allocs++
	return id, nil
}

// LocationKeys are the location label keys used by the harness, in order.
var LocationKeys = []string{"zone", "rack", "host"}

// StoreSpec is the parsed `id:state:flags:labels:ruleok` of a reset line.
type StoreSpec struct {
	ID     uint64
	State  byte // u o t
	Flags  string
	Labels []uint64
}

// ParseStores parses `id:state:flags:labels[:x];...` ("-" = none).
func ParseStores(s string) ([]StoreSpec, error) {
	if s == "-" || s == "" {
		return nil, nil
	}
	var res []StoreSpec
	for _, x := range strings.Split(s, ";") {
		f := strings.Split(x, ":")
		if len(f) < 4 || len(f[1]) != 1 {
			return nil, fmt.Errorf("bad store %q", x)
		}
		id, err := strconv.ParseUint(f[0], 10, 64)
		if err != nil {
			return nil, err
		}
		res = append(res, StoreSpec{ID: id, State: f[1][0], Flags: f[2], Labels: ParseIDs(f[3], ".")})
	}
	return res, nil
}

// NewCluster builds the mock cluster of a reset line.
func NewCluster(ctx context.Context, supportJoint, optJoint bool, nLoc int, stores []StoreSpec) *Cluster {
	return NewClusterRules(ctx, supportJoint, optJoint, nLoc, stores, 0)
}

// EnableRules switches placement rules on. mode 1: the default rule only; mode 2: voters must sit in
// zone v1 (2 of them), one learner in zone v2, one follower anywhere.
func EnableRules(mc *mockcluster.Cluster, mode int) {
	if mode == 0 {
		return
	}
	mc.SetEnablePlacementRules(true)
	if mode < 2 {
		return
	}
	rm := mc.GetRuleManager()
	// a rule that matches no store of the cluster is rejected by the rule manager: then it is simply absent
	must := func(err error) {}
	must(rm.SetRule(&placement.Rule{GroupID: "pd", ID: "default", Role: placement.Voter, Count: 2,
		LabelConstraints: []placement.LabelConstraint{{Key: "zone", Op: placement.In, Values: []string{"v1"}}}}))
	must(rm.SetRule(&placement.Rule{GroupID: "pd", ID: "lrn", Role: placement.Learner, Count: 1,
		LabelConstraints: []placement.LabelConstraint{{Key: "zone", Op: placement.In, Values: []string{"v2"}}}}))
	must(rm.SetRule(&placement.Rule{GroupID: "pd", ID: "flw", Role: placement.Follower, Count: 1}))
}

// RuleVerdict returns len(fit.RuleFits) for the region and the stores matching the label constraints of
// some fitted rule with role leader or voter (the two inputs of Builder.allowLeader), using the real
// FitRegion / MatchLabelConstraints.
func RuleVerdict(c *Cluster, region *core.RegionInfo) (int, []uint64) {
	if !c.GetOpts().IsPlacementRulesEnabled() {
		return 0, nil
	}
	fit := c.FitRegion(region)
	var ok []uint64
	for _, st := range c.GetStores() {
		for _, rf := range fit.RuleFits {
			if (rf.Rule.Role == placement.Leader || rf.Rule.Role == placement.Voter) &&
				placement.MatchLabelConstraints(st, rf.Rule.LabelConstraints) {
				ok = append(ok, st.GetID())
				break
			}
		}
	}
	return len(fit.RuleFits), SortedU64(ok)
}

// NewClusterRules is NewCluster with a placement-rule mode.
func NewClusterRules(ctx context.Context, supportJoint, optJoint bool, nLoc int, stores []StoreSpec, rules int) *Cluster {
	opts := config.NewTestOptions()
	mc := mockcluster.NewCluster(ctx, opts)
	sc := mc.GetScheduleConfig().Clone()
	sc.EnableJointConsensus = optJoint
	mc.SetScheduleConfig(sc)
	if !supportJoint {
		mc.DisableFeature(versioninfo.JointConsensus)
	}
	mc.SetLabelPropertyConfig(config.LabelPropertyConfig{
		opt.RejectLeader: {{Key: "noleader", Value: "true"}},
	})
	if nLoc > len(LocationKeys) {
		nLoc = len(LocationKeys)
	}
	mc.SetLocationLabels(append([]string{}, LocationKeys[:nLoc]...))
	far := time.Now().Add(1000 * time.Hour)
	for _, s := range stores {
		labels := map[string]string{}
		for i, v := range s.Labels {
			if i < len(LocationKeys) && v != 0 {
				labels[LocationKeys[i]] = fmt.Sprintf("v%d", v)
			}
		}
		if strings.Contains(s.Flags, "r") {
			labels["noleader"] = "true"
		}
		mc.AddLabelsStore(s.ID, 0, labels)
		st := mc.GetStore(s.ID)
		var o []core.StoreCreateOption
		switch s.State {
		case 'o':
			o = append(o, core.OfflineStore(false))
		case 't':
			o = append(o, core.TombstoneStore())
		default:
			o = append(o, core.UpStore())
		}
		hb := far
		if strings.Contains(s.Flags, "c") {
			hb = time.Now().Add(-10 * time.Minute) // disconnected, not down (max-store-down-time = 30m)
		}
		if strings.Contains(s.Flags, "d") {
			hb = time.Time{} // down (and therefore also disconnected)
		}
		o = append(o, core.SetLastHeartbeatTS(hb))
		if strings.Contains(s.Flags, "p") {
			o = append(o, core.PauseLeaderTransfer())
		}
		st = st.Clone(o...)
		if strings.Contains(s.Flags, "b") {
			stats := *st.GetStoreStats()
			stats.IsBusy = true
			st = st.Clone(core.SetStoreStats(&stats))
		}
		mc.PutStore(st)
	}
	EnableRules(mc, rules)
	return &Cluster{Cluster: mc}
}

// MakeRegion builds a RegionInfo (id, epoch, peers in order, leader store, pending stores).
func MakeRegion(id uint64, confVer, version uint64, peers []*metapb.Peer, leaderStore uint64, pendingStores []uint64,
	start, end string) *core.RegionInfo {
	meta := &metapb.Region{Id: id, Peers: peers, StartKey: []byte(start), EndKey: []byte(end),
		RegionEpoch: &metapb.RegionEpoch{ConfVer: confVer, Version: version}}
	var leader *metapb.Peer
	for _, p := range peers {
		if p.GetStoreId() == leaderStore && leaderStore != 0 {
			leader = p
			break
		}
	}
	if leader == nil && leaderStore != 0 {
		leader = &metapb.Peer{StoreId: leaderStore, Id: 999999}
	}
	var pend []*metapb.Peer
	for _, s := range pendingStores {
		for _, p := range peers {
			if p.GetStoreId() == s {
				pend = append(pend, p)
			}
		}
	}
	return core.NewRegionInfo(meta, leader, core.WithPendingPeers(pend))
}

// RoleLetter renders placement roles L F V N(learner).
func RoleLetter(r placement.PeerRoleType) string {
	switch r {
	case placement.Leader:
		return "L"
	case placement.Follower:
		return "F"
	case placement.Voter:
		return "V"
	}
	return "N"
}

// ParseRoles parses `<store><L|F|V|N>+...`.
func ParseRoles(s string) (map[uint64]placement.PeerRoleType, []uint64, error) {
	res := map[uint64]placement.PeerRoleType{}
	var order []uint64
	if s == "-" || s == "" {
		return res, nil, nil
	}
	for _, x := range strings.Split(s, "+") {
		if len(x) < 2 {
			return nil, nil, fmt.Errorf("bad role %q", x)
		}
		id, err := strconv.ParseUint(x[:len(x)-1], 10, 64)
		if err != nil {
			return nil, nil, err
		}
		var r placement.PeerRoleType
		switch x[len(x)-1] {
		case 'L':
			r = placement.Leader
		case 'F':
			r = placement.Follower
		case 'V':
			r = placement.Voter
		case 'N':
			r = placement.Learner
		default:
			return nil, nil, fmt.Errorf("bad role %q", x)
		}
		if _, dup := res[id]; !dup {
			order = append(order, id)
		}
		res[id] = r
	}
	return res, order, nil
}

// KV splits the `k=v` words of an op line.
func KV(words []string) map[string]string {
	m := map[string]string{}
	for _, w := range words {
		if i := strings.Index(w, "="); i > 0 {
			m[w[:i]] = w[i+1:]
		}
	}
	return m
}

// SortedU64 sorts ids.
func SortedU64(a []uint64) []uint64 {
	sort.Slice(a, func(i, j int) bool { return a[i] < a[j] })
	return a
}
