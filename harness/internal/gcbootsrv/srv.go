// Package gcbootsrv starts an in-process PD server (real server.CreateServer + Run on its own
// embedded etcd) for the gcsafepoint and bootstrap harnesses and offers the small pieces both need:
// waiting for leadership, goroutine wait-state inspection (is a request blocked on a mutex?), and a
// raw etcd client that bypasses every gate.
package gcbootsrv

import (
	"context"
	"errors"
	"fmt"
	"os"
	"runtime"
	"strings"
	"sync"
	"time"

	"github.com/pingcap/check"
	"github.com/pingcap/log"
	"github.com/tikv/pd/pkg/typeutil"
	"github.com/tikv/pd/server"
	"github.com/tikv/pd/server/config"
	"go.etcd.io/etcd/clientv3"
	"go.uber.org/zap"

	_ "verifharness/internal/quiet"
)

// Srv is one running server.
type Srv struct {
	S      *server.Server
	Cfg    *config.Config
	Raw    *clientv3.Client // separate client, never gated
	cancel context.CancelFunc
}

// Start creates and runs a single-member PD and waits until it is the serving leader.
func Start(adjust func(*config.Config)) *Srv {
	cfg := server.NewTestSingleConfig(&check.C{})
	cfg.Log.Level = "fatal"
	if err := cfg.SetupLogger(); err != nil {
		panic(err)
	}
	log.ReplaceGlobals(zap.NewNop(), &log.ZapProperties{})
	cfg.PDServerCfg.MaxResetTSGap = typeutil.NewDuration(100 * 365 * 24 * time.Hour)
	if adjust != nil {
		adjust(cfg)
	}
	ctx, cancel := context.WithCancel(context.Background())
	s, err := server.CreateServer(ctx, cfg)
	if err != nil {
		panic(err)
	}
	if err := s.Run(); err != nil {
		panic(err)
	}
	r := &Srv{S: s, Cfg: cfg, cancel: cancel}
	r.WaitLeader()
	raw, err := clientv3.New(clientv3.Config{Endpoints: []string{cfg.ClientUrls}, DialTimeout: 5 * time.Second})
	if err != nil {
		panic(err)
	}
	r.Raw = raw
	return r
}

// WaitLeader blocks until the server serves as leader.
func (r *Srv) WaitLeader() {
	deadline := time.Now().Add(60 * time.Second)
	for time.Now().Before(deadline) {
		if !r.S.IsClosed() && r.S.GetMember().IsLeader() {
			return
		}
		time.Sleep(20 * time.Millisecond)
	}
	panic("pd server did not become leader")
}

// Stop closes the server and removes its data dir.
func (r *Srv) Stop() {
	if r.Raw != nil {
		r.Raw.Close()
	}
	r.S.Close()
	r.cancel()
	os.RemoveAll(r.Cfg.DataDir)
}

// GoID returns the id of the calling goroutine (parsed from its stack header).
func GoID() string {
	buf := make([]byte, 64)
	n := runtime.Stack(buf, false)
	f := strings.Fields(string(buf[:n]))
	if len(f) >= 2 {
		return f[1]
	}
	return ""
}

// WaitState returns the scheduler wait state ("semacquire", "sync.Mutex.Lock", "chan receive", ...) of
// goroutine id together with its stack, or "" when it does not exist any more.
func WaitState(id string) (state string, stack string) {
	buf := make([]byte, 1<<20)
	for {
		n := runtime.Stack(buf, true)
		if n < len(buf) {
			buf = buf[:n]
			break
		}
		buf = make([]byte, 2*len(buf))
	}
	head := fmt.Sprintf("goroutine %s [", id)
	for _, g := range strings.Split(string(buf), "\n\n") {
		if strings.HasPrefix(g, head) {
			rest := g[len(head):]
			if i := strings.Index(rest, "]"); i >= 0 {
				st := rest[:i]
				if j := strings.Index(st, ","); j >= 0 {
					st = st[:j]
				}
				return st, g
			}
		}
	}
	return "", ""
}

// BlockedOnMutex reports whether goroutine id sits in sync.(*Mutex).Lock called from a frame whose
// function name contains inFunc, either directly or through one helper of the same package (e.g. a
// `lockX()` method that takes the mutex for its caller).
func BlockedOnMutex(id string, inFunc string) bool {
	st, stack := WaitState(id)
	if st != "semacquire" && st != "sync.Mutex.Lock" {
		return false
	}
	lines := strings.Split(stack, "\n")
	for i, l := range lines {
		if strings.HasPrefix(l, "sync.(*Mutex).Lock(") {
			// function lines alternate with file:line lines; look at the caller and the caller's caller
			if i+2 < len(lines) && strings.Contains(lines[i+2], inFunc) {
				return true
			}
			if i+4 < len(lines) && strings.Contains(lines[i+4], inFunc) && samePkg(lines[i+2], lines[i+4]) {
				return true
			}
		}
	}
	return false
}

// WaitingIn reports whether goroutine id is parked by the runtime on a synchronisation primitive (mutex,
// wait group, condition variable) somewhere below a frame whose function name contains inFunc.
func WaitingIn(id string, inFunc string) bool {
	st, stack := WaitState(id)
	switch st {
	case "semacquire", "sync.Mutex.Lock", "sync.WaitGroup.Wait", "sync.Cond.Wait", "sync.RWMutex.RLock", "sync.RWMutex.Lock":
		return strings.Contains(stack, inFunc)
	}
	return false
}

func samePkg(a, b string) bool {
	pkg := func(s string) string {
		if i := strings.LastIndex(s, "/"); i >= 0 {
			if j := strings.Index(s[i:], "."); j >= 0 {
				return s[:i+j]
			}
		}
		return s
	}
	return pkg(a) == pkg(b)
}

// Cluster is a set of PD servers forming one etcd cluster.
type Cluster struct {
	Srvs []*Srv
	Raw  *clientv3.Client
}

// StartCluster runs n PD servers in this process (they form one etcd cluster) and waits for a PD leader.
func StartCluster(n int, adjust func(*config.Config)) *Cluster {
	cfgs := server.NewTestMultiConfig(&check.C{}, n)
	for _, cfg := range cfgs {
		cfg.Log.Level = "fatal"
		if err := cfg.SetupLogger(); err != nil {
			panic(err)
		}
		cfg.PDServerCfg.MaxResetTSGap = typeutil.NewDuration(100 * 365 * 24 * time.Hour)
		if adjust != nil {
			adjust(cfg)
		}
	}
	log.ReplaceGlobals(zap.NewNop(), &log.ZapProperties{})
	c := &Cluster{Srvs: make([]*Srv, n)}
	done := make(chan int, n)
	for i, cfg := range cfgs {
		go func(i int, cfg *config.Config) {
			ctx, cancel := context.WithCancel(context.Background())
			s, err := server.CreateServer(ctx, cfg)
			if err != nil {
				panic(err)
			}
			if err := s.Run(); err != nil {
				panic(err)
			}
			c.Srvs[i] = &Srv{S: s, Cfg: cfg, cancel: cancel}
			done <- i
		}(i, cfg)
	}
	for range cfgs {
		select {
		case <-done:
		case <-time.After(120 * time.Second):
			panic("pd servers did not start")
		}
	}
	c.WaitLeader()
	var eps []string
	for _, cfg := range cfgs {
		eps = append(eps, cfg.ClientUrls)
	}
	raw, err := clientv3.New(clientv3.Config{Endpoints: eps, DialTimeout: 5 * time.Second})
	if err != nil {
		panic(err)
	}
	c.Raw = raw
	return c
}

// Leader returns the index of the serving PD leader, -1 if there is none.
func (c *Cluster) Leader() int {
	for i, s := range c.Srvs {
		if !s.S.IsClosed() && s.S.GetMember().IsLeader() {
			return i
		}
	}
	return -1
}

// WaitLeader waits until some server serves as leader and returns its index.
func (c *Cluster) WaitLeader() int {
	deadline := time.Now().Add(60 * time.Second)
	for time.Now().Before(deadline) {
		if l := c.Leader(); l >= 0 {
			return l
		}
		time.Sleep(10 * time.Millisecond)
	}
	panic("no pd leader")
}

// Stop closes all servers.
func (c *Cluster) Stop() {
	if c.Raw != nil {
		c.Raw.Close()
	}
	for _, s := range c.Srvs {
		s.S.Close()
		s.cancel()
		os.RemoveAll(s.Cfg.DataDir)
	}
}

// GoGateKV wraps a clientv3.KV: the next transaction committed by a registered goroutine parks until it
// is released (with an optional fault); everybody else's transactions pass untouched.
type GoGateKV struct {
	clientv3.KV
	mu    sync.Mutex
	gates map[string]*TxnGate
}

// TxnGate is the gate of one goroutine.
type TxnGate struct {
	Parked  chan struct{} // receives when the goroutine's Commit has parked
	Release chan string   // "none" | "before" | "after"
}

// ErrInjectedTxn is returned by a faulted Commit.
var ErrInjectedTxn = errors.New("injected etcd txn error")

// WrapGo installs a goroutine-selective gate on the client's KV.
func WrapGo(c *clientv3.Client) *GoGateKV {
	g := &GoGateKV{KV: c.KV, gates: map[string]*TxnGate{}}
	c.KV = g
	return g
}

// Register makes the calling goroutine's transactions park.
func (g *GoGateKV) Register() *TxnGate {
	t := &TxnGate{Parked: make(chan struct{}, 4), Release: make(chan string, 4)}
	g.mu.Lock()
	g.gates[GoID()] = t
	g.mu.Unlock()
	return t
}

// RegisterID registers the goroutine with the given id.
func (g *GoGateKV) RegisterID(id string, t *TxnGate) {
	g.mu.Lock()
	g.gates[id] = t
	g.mu.Unlock()
}

// Unregister removes the calling goroutine's gate.
func (g *GoGateKV) Unregister() {
	g.mu.Lock()
	delete(g.gates, GoID())
	g.mu.Unlock()
}

// Txn implements clientv3.KV.
func (g *GoGateKV) Txn(ctx context.Context) clientv3.Txn {
	return &goGateTxn{Txn: g.KV.Txn(ctx), g: g}
}

type goGateTxn struct {
	clientv3.Txn
	g *GoGateKV
}

func (t *goGateTxn) If(cs ...clientv3.Cmp) clientv3.Txn   { t.Txn = t.Txn.If(cs...); return t }
func (t *goGateTxn) Then(ops ...clientv3.Op) clientv3.Txn { t.Txn = t.Txn.Then(ops...); return t }
func (t *goGateTxn) Else(ops ...clientv3.Op) clientv3.Txn { t.Txn = t.Txn.Else(ops...); return t }

func (t *goGateTxn) Commit() (*clientv3.TxnResponse, error) {
	t.g.mu.Lock()
	gate := t.g.gates[GoID()]
	t.g.mu.Unlock()
	if gate == nil {
		return t.Txn.Commit()
	}
	gate.Parked <- struct{}{}
	f := <-gate.Release
	// one-shot: later transactions of the same goroutine (e.g. saving the bootstrap region) pass
	id := GoID()
	t.g.mu.Lock()
	delete(t.g.gates, id)
	t.g.mu.Unlock()
	switch f {
	case "before":
		return nil, ErrInjectedTxn
	case "after":
		if _, err := t.Txn.Commit(); err != nil {
			return nil, err
		}
		return nil, ErrInjectedTxn
	}
	return t.Txn.Commit()
}
