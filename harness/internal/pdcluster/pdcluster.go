// Package pdcluster builds a mockcluster from the textual cluster description shared by the
// `checkers` and `scatter` harnesses (properties C10, C11) and renders operators canonically.
//
// Lines (tokens are key=value, absent keys take the defaults below, `-` is the empty list):
//
//	opt maxrep=3 labels=zone,host level=zone low=3/4 maxdown=1800 maxsnap=3 maxpend=16
//	    reject=k:v,k:v flags=dormx rules=0 jc=1
//	store 4 st=0 down=0 busy=0 pause=0 add=1 rm=1 ss=0 rs=0 pend=0 cap=… avail=… rc=0 labels=zone:z1,host:h1
//	region 7 peers=101:1:0,102:2:1 leader=101 down=102:4000 pending=103
//	rule pd/r1 role=voter count=3 cons=zone:in:z1|z2;host:notIn:h1 labels=zone,host level=zone
package pdcluster

import (
	"context"
	"fmt"
	"sort"
	"strconv"
	"strings"
	"time"

	"github.com/pingcap/kvproto/pkg/metapb"
	"github.com/pingcap/kvproto/pkg/pdpb"
	"github.com/tikv/pd/pkg/mock/mockcluster"
	"github.com/tikv/pd/pkg/typeutil"
	"github.com/tikv/pd/server/config"
	"github.com/tikv/pd/server/core"
	"github.com/tikv/pd/server/core/storelimit"
	"github.com/tikv/pd/server/schedule/operator"
	"github.com/tikv/pd/server/schedule/opt"
	"github.com/tikv/pd/server/schedule/placement"
	"github.com/tikv/pd/server/versioninfo"
)

// Opts mirrors the `opt` line.
type Opts struct {
	MaxRep          int
	Labels          []string
	Level           string
	LowNum, LowDen  int
	MaxDown         int
	MaxSnap         int
	MaxPend         int
	Reject          [][2]string
	Flags           string // d=remove-down o=replace-offline m=make-up x=remove-extra l=location-replacement
	Rules           bool
	JC              bool
	LeaderTolerance bool
}

// DefaultOpts are the defaults of both the harness and the Lean driver.
func DefaultOpts() Opts {
	return Opts{MaxRep: 3, LowNum: 4, LowDen: 5, MaxDown: 1800, MaxSnap: 3, MaxPend: 16, Flags: "domxl", JC: true}
}

// Store mirrors a `store` line.
type Store struct {
	ID                     uint64
	State                  int
	Down                   int64
	EdgeMs                 int64 // extra milliseconds of silence beyond Down whole seconds (set by harness ops only)
	Busy, Pause            bool
	Add, Rm                bool
	SS, RS, Pend           int
	Cap, Avail             uint64
	RC, LC                 int
	Labels                 [][2]string
	RegionSize, LeaderSize int64
}

// Peer is id:store:role.
type Peer struct {
	ID, Store uint64
	Role      int
}

// Region mirrors a `region` line.
type Region struct {
	ID      uint64
	Peers   []Peer
	Leader  uint64
	Down    [][2]uint64
	Pending []uint64
}

// Rule mirrors a `rule` line.
type Rule struct {
	Group, ID string
	Role      string
	Count     int
	Cons      []placement.LabelConstraint
	Labels    []string
	Level     string
}

// Spec is everything the lines of one sequence described so far.
type Spec struct {
	Opts    Opts
	Stores  []Store
	Regions []Region
	Rules   []Rule
}

// NewSpec returns an empty description with default options.
func NewSpec() *Spec { return &Spec{Opts: DefaultOpts()} }

func kv(tok string) (string, string) {
	i := strings.Index(tok, "=")
	if i < 0 {
		return tok, ""
	}
	return tok[:i], tok[i+1:]
}

func atoi(s string) int { n, _ := strconv.Atoi(s); return n }

func atou(s string) uint64 { n, _ := strconv.ParseUint(s, 10, 64); return n }

func list(s, sep string) []string {
	if s == "" || s == "-" {
		return nil
	}
	return strings.Split(s, sep)
}

func pairs(s string) [][2]string {
	var r [][2]string
	for _, p := range list(s, ",") {
		x := strings.SplitN(p, ":", 2)
		if len(x) == 2 {
			r = append(r, [2]string{x[0], x[1]})
		}
	}
	return r
}

// ParseCons parses `key:op:v1|v2;key:op`.
func ParseCons(s string) []placement.LabelConstraint {
	var r []placement.LabelConstraint
	for _, c := range list(s, ";") {
		x := strings.SplitN(c, ":", 3)
		if len(x) < 2 {
			continue
		}
		lc := placement.LabelConstraint{Key: x[0], Op: placement.LabelConstraintOp(x[1])}
		if len(x) == 3 {
			lc.Values = list(x[2], "|")
		}
		r = append(r, lc)
	}
	return r
}

// FormatCons is the inverse of ParseCons.
func FormatCons(cs []placement.LabelConstraint) string {
	if len(cs) == 0 {
		return "-"
	}
	var r []string
	for _, c := range cs {
		s := c.Key + ":" + string(c.Op)
		if len(c.Values) > 0 {
			s += ":" + strings.Join(c.Values, "|")
		}
		r = append(r, s)
	}
	return strings.Join(r, ";")
}

// Apply interprets one description line; ok=false when the line is not a description line.
func (sp *Spec) Apply(line string) (ok bool) {
	f := strings.Fields(line)
	if len(f) == 0 {
		return false
	}
	switch f[0] {
	case "opt":
		o := &sp.Opts
		for _, t := range f[1:] {
			k, v := kv(t)
			switch k {
			case "maxrep":
				o.MaxRep = atoi(v)
			case "labels":
				o.Labels = list(v, ",")
			case "level":
				o.Level = v
				if v == "-" {
					o.Level = ""
				}
			case "low":
				x := strings.SplitN(v, "/", 2)
				if len(x) == 2 {
					o.LowNum, o.LowDen = atoi(x[0]), atoi(x[1])
				}
			case "maxdown":
				o.MaxDown = atoi(v)
			case "maxsnap":
				o.MaxSnap = atoi(v)
			case "maxpend":
				o.MaxPend = atoi(v)
			case "reject":
				o.Reject = pairs(v)
			case "flags":
				o.Flags = v
				if v == "-" {
					o.Flags = ""
				}
			case "rules":
				o.Rules = v == "1"
			case "jc":
				o.JC = v == "1"
			}
		}
		return true
	case "store":
		if len(f) < 2 {
			return true
		}
		s := Store{ID: atou(f[1]), Add: true, Rm: true}
		for _, t := range f[2:] {
			k, v := kv(t)
			switch k {
			case "st":
				s.State = atoi(v)
			case "down":
				s.Down = int64(atoi(v))
			case "busy":
				s.Busy = v == "1"
			case "pause":
				s.Pause = v == "1"
			case "add":
				s.Add = v == "1"
			case "rm":
				s.Rm = v == "1"
			case "ss":
				s.SS = atoi(v)
			case "rs":
				s.RS = atoi(v)
			case "pend":
				s.Pend = atoi(v)
			case "cap":
				s.Cap = atou(v)
			case "avail":
				s.Avail = atou(v)
			case "rc":
				s.RC = atoi(v)
			case "lc":
				s.LC = atoi(v)
			case "rsize":
				s.RegionSize = int64(atoi(v))
			case "lsize":
				s.LeaderSize = int64(atoi(v))
			case "labels":
				s.Labels = pairs(v)
			}
		}
		for i := range sp.Stores {
			if sp.Stores[i].ID == s.ID {
				sp.Stores[i] = s
				return true
			}
		}
		sp.Stores = append(sp.Stores, s)
		return true
	case "region":
		if len(f) < 2 {
			return true
		}
		r := Region{ID: atou(f[1])}
		for _, t := range f[2:] {
			k, v := kv(t)
			switch k {
			case "peers":
				for _, p := range list(v, ",") {
					x := strings.Split(p, ":")
					if len(x) == 3 {
						r.Peers = append(r.Peers, Peer{atou(x[0]), atou(x[1]), atoi(x[2])})
					}
				}
			case "leader":
				r.Leader = atou(v)
			case "down":
				for _, p := range list(v, ",") {
					x := strings.Split(p, ":")
					if len(x) == 2 {
						r.Down = append(r.Down, [2]uint64{atou(x[0]), atou(x[1])})
					}
				}
			case "pending":
				for _, p := range list(v, ",") {
					r.Pending = append(r.Pending, atou(p))
				}
			}
		}
		for i := range sp.Regions {
			if sp.Regions[i].ID == r.ID {
				sp.Regions[i] = r
				return true
			}
		}
		sp.Regions = append(sp.Regions, r)
		return true
	case "rule":
		if len(f) < 2 {
			return true
		}
		x := strings.SplitN(f[1], "/", 2)
		if len(x) != 2 {
			return true
		}
		r := Rule{Group: x[0], ID: x[1], Role: "voter", Count: 1}
		for _, t := range f[2:] {
			k, v := kv(t)
			switch k {
			case "role":
				r.Role = v
			case "count":
				r.Count = atoi(v)
			case "cons":
				r.Cons = ParseCons(v)
			case "labels":
				r.Labels = list(v, ",")
			case "level":
				r.Level = v
				if v == "-" {
					r.Level = ""
				}
			}
		}
		sp.Rules = append(sp.Rules, r)
		return true
	}
	return false
}

// World is a built cluster.
type World struct {
	Ctx     context.Context
	Cancel  context.CancelFunc
	Cluster *mockcluster.Cluster
	Regions map[uint64]*core.RegionInfo
}

func metaRole(r int) metapb.PeerRole {
	switch r {
	case 1:
		return metapb.PeerRole_Learner
	case 2:
		return metapb.PeerRole_IncomingVoter
	case 3:
		return metapb.PeerRole_DemotingVoter
	}
	return metapb.PeerRole_Voter
}

// BuildRegion makes the RegionInfo of a description.
func BuildRegion(r Region) *core.RegionInfo {
	meta := &metapb.Region{
		Id:          r.ID,
		StartKey:    []byte(fmt.Sprintf("%20d", r.ID)),
		EndKey:      []byte(fmt.Sprintf("%20d", r.ID+1)),
		RegionEpoch: &metapb.RegionEpoch{ConfVer: 1, Version: 1},
	}
	byID := map[uint64]*metapb.Peer{}
	for _, p := range r.Peers {
		mp := &metapb.Peer{Id: p.ID, StoreId: p.Store, Role: metaRole(p.Role)}
		meta.Peers = append(meta.Peers, mp)
		if _, dup := byID[p.ID]; !dup {
			byID[p.ID] = mp
		}
	}
	var leader *metapb.Peer
	if l, ok := byID[r.Leader]; ok {
		leader = l
	}
	var opts []core.RegionCreateOption
	var down []*pdpb.PeerStats
	for _, d := range r.Down {
		if p, ok := byID[d[0]]; ok {
			down = append(down, &pdpb.PeerStats{Peer: p, DownSeconds: d[1]})
		}
	}
	if len(down) > 0 {
		opts = append(opts, core.WithDownPeers(down))
	}
	var pend []*metapb.Peer
	for _, id := range r.Pending {
		if p, ok := byID[id]; ok {
			pend = append(pend, p)
		}
	}
	if len(pend) > 0 {
		opts = append(opts, core.WithPendingPeers(pend))
	}
	opts = append(opts, core.SetApproximateSize(96), core.SetApproximateKeys(960000))
	return core.NewRegionInfo(meta, leader, opts...)
}

// Build creates the mockcluster described by sp (fresh heartbeats: call it right before use).
func (sp *Spec) Build() (*World, error) {
	o := sp.Opts
	po := config.NewTestOptions()
	rc := po.GetReplicationConfig().Clone()
	rc.MaxReplicas = uint64(o.MaxRep)
	rc.LocationLabels = o.Labels
	rc.IsolationLevel = o.Level
	rc.EnablePlacementRules = o.Rules
	po.SetReplicationConfig(rc)
	sc := po.GetScheduleConfig().Clone()
	if o.LowDen > 0 {
		sc.LowSpaceRatio = float64(o.LowNum) / float64(o.LowDen)
	}
	sc.MaxStoreDownTime = typeutil.NewDuration(time.Duration(o.MaxDown) * time.Second)
	sc.MaxSnapshotCount = uint64(o.MaxSnap)
	sc.MaxPendingPeerCount = uint64(o.MaxPend)
	sc.EnableRemoveDownReplica = strings.Contains(o.Flags, "d")
	sc.EnableReplaceOfflineReplica = strings.Contains(o.Flags, "o")
	sc.EnableMakeUpReplica = strings.Contains(o.Flags, "m")
	sc.EnableRemoveExtraReplica = strings.Contains(o.Flags, "x")
	sc.EnableLocationReplacement = strings.Contains(o.Flags, "l")
	sc.EnableJointConsensus = o.JC
	po.SetScheduleConfig(sc)
	lp := config.LabelPropertyConfig{}
	for _, r := range o.Reject {
		lp[opt.RejectLeader] = append(lp[opt.RejectLeader], config.StoreLabel{Key: r[0], Value: r[1]})
	}
	po.SetLabelPropertyConfig(lp)

	ctx, cancel := context.WithCancel(context.Background())
	mc := mockcluster.NewCluster(ctx, po)
	if !o.JC {
		mc.DisableFeature(versioninfo.JointConsensus)
	}
	now := time.Now()
	for _, s := range sp.Stores {
		s := s
		meta := &metapb.Store{Id: s.ID, State: metapb.StoreState(s.State), Address: fmt.Sprintf("mock://%d", s.ID)}
		for _, l := range s.Labels {
			meta.Labels = append(meta.Labels, &metapb.StoreLabel{Key: l[0], Value: l[1]})
		}
		stats := &pdpb.StoreStats{
			StoreId: s.ID, Capacity: s.Cap, Available: s.Avail, IsBusy: s.Busy,
			SendingSnapCount: uint32(s.SS), ReceivingSnapCount: uint32(s.RS),
		}
		if s.Cap >= s.Avail {
			stats.UsedSize = s.Cap - s.Avail
		}
		opts := []core.StoreCreateOption{
			core.SetStoreStats(stats),
			core.SetRegionCount(s.RC),
			core.SetLeaderCount(s.LC),
			core.SetRegionSize(s.RegionSize),
			core.SetLeaderSize(s.LeaderSize),
			core.SetPendingPeerCount(s.Pend),
			core.SetLastHeartbeatTS(now.Add(-time.Duration(s.Down)*time.Second - time.Duration(s.EdgeMs)*time.Millisecond)),
			core.AttachAvailableFunc(storelimit.AddPeer, func() bool { return s.Add }),
			core.AttachAvailableFunc(storelimit.RemovePeer, func() bool { return s.Rm }),
		}
		if s.Pause {
			opts = append(opts, core.PauseLeaderTransfer())
		}
		mc.PutStore(core.NewStoreInfo(meta, opts...))
	}
	w := &World{Ctx: ctx, Cancel: cancel, Cluster: mc, Regions: map[uint64]*core.RegionInfo{}}
	for _, r := range sp.Regions {
		ri := BuildRegion(r)
		w.Regions[r.ID] = ri
		mc.PutRegion(ri)
	}
	if o.Rules {
		if len(sp.Rules) > 0 {
			var rules []*placement.Rule
			for _, r := range sp.Rules {
				rules = append(rules, &placement.Rule{
					GroupID: r.Group, ID: r.ID, Role: placement.PeerRoleType(r.Role), Count: r.Count,
					LabelConstraints: r.Cons, LocationLabels: r.Labels, IsolationLevel: r.Level,
				})
			}
			if err := mc.RuleManager.SetRules(rules); err != nil {
				cancel()
				return nil, err
			}
			keep := false
			for _, r := range sp.Rules {
				if r.Group == "pd" && r.ID == "default" {
					keep = true
				}
			}
			if !keep {
				if err := mc.RuleManager.DeleteRule("pd", "default"); err != nil {
					cancel()
					return nil, err
				}
			}
		}
	}
	return w, nil
}

// Close releases the cluster's goroutines.
func (w *World) Close() { w.Cancel() }

func ids(xs []uint64) string {
	if len(xs) == 0 {
		return "-"
	}
	sort.Slice(xs, func(i, j int) bool { return xs[i] < xs[j] })
	s := make([]string, len(xs))
	for i, x := range xs {
		s[i] = fmt.Sprint(x)
	}
	return strings.Join(s, "+")
}

// FormatStep renders one operator step.
func FormatStep(st operator.OpStep) string {
	switch s := st.(type) {
	case operator.AddLearner:
		return fmt.Sprintf("al:%d", s.ToStore)
	case operator.AddLightLearner:
		return fmt.Sprintf("all:%d", s.ToStore)
	case operator.AddPeer:
		return fmt.Sprintf("ap:%d", s.ToStore)
	case operator.AddLightPeer:
		return fmt.Sprintf("alp:%d", s.ToStore)
	case operator.PromoteLearner:
		return fmt.Sprintf("pl:%d", s.ToStore)
	case operator.DemoteFollower:
		return fmt.Sprintf("df:%d", s.ToStore)
	case operator.RemovePeer:
		return fmt.Sprintf("rp:%d", s.FromStore)
	case operator.TransferLeader:
		return fmt.Sprintf("tl:%d:%d", s.FromStore, s.ToStore)
	case operator.ChangePeerV2Enter:
		var p, d []uint64
		for _, x := range s.PromoteLearners {
			p = append(p, x.ToStore)
		}
		for _, x := range s.DemoteVoters {
			d = append(d, x.ToStore)
		}
		return fmt.Sprintf("en:%s:%s", ids(p), ids(d))
	case operator.ChangePeerV2Leave:
		var p, d []uint64
		for _, x := range s.PromoteLearners {
			p = append(p, x.ToStore)
		}
		for _, x := range s.DemoteVoters {
			d = append(d, x.ToStore)
		}
		return fmt.Sprintf("lv:%s:%s", ids(p), ids(d))
	case operator.SplitRegion:
		return "sp"
	case operator.MergeRegion:
		return "mg"
	}
	return "unknown"
}

// FormatOp renders an operator: `op <desc> r=<region> steps=<step>;<step>…` (nil → `none`).
func FormatOp(op *operator.Operator) string {
	if op == nil {
		return "none"
	}
	var st []string
	for i := 0; i < op.Len(); i++ {
		st = append(st, FormatStep(op.Step(i)))
	}
	return fmt.Sprintf("op %s r=%d steps=%s", op.Desc(), op.RegionID(), strings.Join(st, ";"))
}

// FormatFit renders a region fit: one `rf=` token per rule fit, then `orphans=`.
//
//	rf=<group/id>,<role>,<count>,<labels +>,<level>,<cons>,<peer ids +>,<loosely matched peer ids +>
func FormatFit(fit *placement.RegionFit) string {
	var toks []string
	pid := func(ps []*metapb.Peer) string {
		if len(ps) == 0 {
			return "-"
		}
		s := make([]string, len(ps))
		for i, p := range ps {
			s[i] = fmt.Sprint(p.GetId())
		}
		return strings.Join(s, "+")
	}
	for _, rf := range fit.RuleFits {
		r := rf.Rule
		labels, level := "-", "-"
		if len(r.LocationLabels) > 0 {
			labels = strings.Join(r.LocationLabels, "+")
		}
		if r.IsolationLevel != "" {
			level = r.IsolationLevel
		}
		toks = append(toks, fmt.Sprintf("rf=%s/%s,%s,%d,%s,%s,%s,%s,%s", r.GroupID, r.ID, r.Role, r.Count,
			labels, level, FormatCons(r.LabelConstraints), pid(rf.Peers), pid(rf.PeersWithDifferentRole)))
	}
	toks = append(toks, "orphans="+pid(fit.OrphanPeers))
	return strings.Join(toks, " ")
}
