// Package rng is the single PRNG (splitmix64) every harness derives its random choices from.
package rng

import (
	"os"
	"strconv"
)

// R is a splitmix64 state.
type R struct{ s uint64 }

// New returns a generator seeded with seed.
func New(seed uint64) *R { return &R{s: seed} }

// FromEnv seeds from VERIF_SEED (default 1), mixed with a stream number.
func FromEnv(stream uint64) *R {
	seed := uint64(1)
	if v := os.Getenv("VERIF_SEED"); v != "" {
		if n, err := strconv.ParseUint(v, 10, 64); err == nil {
			seed = n
		}
	}
	r := New(seed*0x9E3779B97F4A7C15 + stream)
	r.U64()
	return r
}

// Seed returns the value of VERIF_SEED (default 1).
func Seed() uint64 {
	if v := os.Getenv("VERIF_SEED"); v != "" {
		if n, err := strconv.ParseUint(v, 10, 64); err == nil {
			return n
		}
	}
	return 1
}

// U64 returns the next 64 random bits.
func (r *R) U64() uint64 {
	r.s += 0x9E3779B97F4A7C15
	z := r.s
	z = (z ^ (z >> 30)) * 0xBF58476D1CE4E5B9
	z = (z ^ (z >> 27)) * 0x94D049BB133111EB
	return z ^ (z >> 31)
}

// Intn returns a value in [0,n).
func (r *R) Intn(n int) int {
	if n <= 0 {
		return 0
	}
	return int(r.U64() % uint64(n))
}

// Range returns a value in [lo,hi].
func (r *R) Range(lo, hi int) int { return lo + r.Intn(hi-lo+1) }

// Bool is true with probability num/den.
func (r *R) Bool(num, den int) bool { return r.Intn(den) < num }

// Pick returns one of the weights' indexes, proportionally.
func (r *R) Pick(weights ...int) int {
	t := 0
	for _, w := range weights {
		t += w
	}
	x := r.Intn(t)
	for i, w := range weights {
		if x < w {
			return i
		}
		x -= w
	}
	return len(weights) - 1
}
