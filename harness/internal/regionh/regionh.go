// Package regionh holds the region text format shared by the regiontree (C07) and regioncache (C06)
// harnesses: keys are hex strings ("_" = empty), a region spec is
//
//	<id> <start> <end> <ver> <conf> <term> <sizeBytes> <leaderPeerId> <peers> <pending>
//
// with peers = "pid.store.v,pid.store.l" ("-" = none) and pending = "pid.store,..." ("-" = none).
package regionh

import (
	"encoding/hex"
	"fmt"
	"sort"
	"strconv"
	"strings"

	"github.com/pingcap/kvproto/pkg/metapb"
	"github.com/pingcap/kvproto/pkg/pdpb"
	"github.com/tikv/pd/server/core"
)

// Key renders a key.
func Key(k []byte) string {
	if len(k) == 0 {
		return "_"
	}
	return hex.EncodeToString(k)
}

// ParseKey parses a rendered key.
func ParseKey(s string) []byte {
	if s == "_" || s == "" {
		return []byte{}
	}
	b, err := hex.DecodeString(s)
	if err != nil {
		panic("bad key " + s)
	}
	return b
}

// Spec is the parsed form of a region spec.
type Spec struct {
	ID, Ver, Conf, Term, SizeBytes, Leader uint64
	Start, End                             []byte
	Peers                                  []*metapb.Peer
	Pending                                []*metapb.Peer
	// optional trailing tokens k=<approximate keys> w=<bytes written> r=<bytes read> d=<down peers pid.store,...>
	Keys, Written, Read uint64
	Down                []*metapb.Peer
}

func u(s string) uint64 { n, _ := strconv.ParseUint(s, 10, 64); return n }

// ParseSpec parses the 10 fields of a region spec.
func ParseSpec(f []string) *Spec {
	if len(f) < 10 {
		panic("short region spec: " + strings.Join(f, " "))
	}
	sp := &Spec{ID: u(f[0]), Start: ParseKey(f[1]), End: ParseKey(f[2]), Ver: u(f[3]), Conf: u(f[4]),
		Term: u(f[5]), SizeBytes: u(f[6]), Leader: u(f[7])}
	if f[8] != "-" {
		for _, p := range strings.Split(f[8], ",") {
			x := strings.Split(p, ".")
			peer := &metapb.Peer{Id: u(x[0]), StoreId: u(x[1])}
			if len(x) > 2 && x[2] == "l" {
				peer.Role = metapb.PeerRole_Learner
			}
			sp.Peers = append(sp.Peers, peer)
		}
	}
	if f[9] != "-" {
		for _, p := range strings.Split(f[9], ",") {
			x := strings.Split(p, ".")
			peer := &metapb.Peer{Id: u(x[0]), StoreId: u(x[1])}
			// a pending peer carries the role of the peer it names, when there is one
			for _, q := range sp.Peers {
				if q.Id == peer.Id && q.StoreId == peer.StoreId {
					peer.Role = q.Role
				}
			}
			sp.Pending = append(sp.Pending, peer)
		}
	}
	for _, t := range f[10:] {
		switch {
		case strings.HasPrefix(t, "k="):
			sp.Keys = u(t[2:])
		case strings.HasPrefix(t, "w="):
			sp.Written = u(t[2:])
		case strings.HasPrefix(t, "r="):
			sp.Read = u(t[2:])
		case strings.HasPrefix(t, "d=") && t != "d=-":
			for _, p := range strings.Split(t[2:], ",") {
				x := strings.Split(p, ".")
				sp.Down = append(sp.Down, &metapb.Peer{Id: u(x[0]), StoreId: u(x[1])})
			}
		}
	}
	return sp
}

// Heartbeat builds the heartbeat request a TiKV would send for the spec.
func (sp *Spec) Heartbeat() *pdpb.RegionHeartbeatRequest {
	meta := &metapb.Region{Id: sp.ID, StartKey: sp.Start, EndKey: sp.End,
		RegionEpoch: &metapb.RegionEpoch{Version: sp.Ver, ConfVer: sp.Conf}, Peers: sp.Peers}
	var leader *metapb.Peer
	if sp.Leader != 0 {
		leader = &metapb.Peer{Id: sp.Leader}
		for _, p := range sp.Peers {
			if p.Id == sp.Leader {
				leader = &metapb.Peer{Id: p.Id, StoreId: p.StoreId, Role: p.Role}
				break
			}
		}
	}
	var down []*pdpb.PeerStats
	for _, p := range sp.Down {
		down = append(down, &pdpb.PeerStats{Peer: p, DownSeconds: 30})
	}
	return &pdpb.RegionHeartbeatRequest{Region: meta, Leader: leader, PendingPeers: sp.Pending, DownPeers: down,
		ApproximateSize: sp.SizeBytes, ApproximateKeys: sp.Keys, BytesWritten: sp.Written, BytesRead: sp.Read,
		Term: sp.Term}
}

// Region builds the RegionInfo through core.RegionFromHeartbeat (the constructor the server uses).
func (sp *Spec) Region() *core.RegionInfo { return core.RegionFromHeartbeat(sp.Heartbeat()) }

// Render is the canonical full form of a cached region:
// id:start:end:ver.conf.term:sizeMB:leader:peers:pending
func Render(r *core.RegionInfo) string {
	if r == nil {
		return "nil"
	}
	var ps []string
	for _, p := range r.GetPeers() {
		role := "v"
		if core.IsLearner(p) {
			role = "l"
		}
		ps = append(ps, fmt.Sprintf("%d.%d.%s", p.GetId(), p.GetStoreId(), role))
	}
	var pp []string
	for _, p := range r.GetPendingPeers() {
		pp = append(pp, fmt.Sprintf("%d.%d", p.GetId(), p.GetStoreId()))
	}
	j := func(l []string) string {
		if len(l) == 0 {
			return "-"
		}
		return strings.Join(l, ",")
	}
	return fmt.Sprintf("%d:%s:%s:%d.%d.%d:%d:%d:%s:%s", r.GetID(), Key(r.GetStartKey()), Key(r.GetEndKey()),
		r.GetRegionEpoch().GetVersion(), r.GetRegionEpoch().GetConfVer(), r.GetTerm(),
		r.GetApproximateSize(), r.GetLeader().GetId(), j(ps), j(pp))
}

// RenderMeta is the canonical form of a stored region meta: id:start:end:ver.conf:peers
func RenderMeta(m *metapb.Region) string {
	var ps []string
	for _, p := range m.GetPeers() {
		role := "v"
		if core.IsLearner(p) {
			role = "l"
		}
		ps = append(ps, fmt.Sprintf("%d.%d.%s", p.GetId(), p.GetStoreId(), role))
	}
	pl := "-"
	if len(ps) > 0 {
		pl = strings.Join(ps, ",")
	}
	return fmt.Sprintf("%d:%s:%s:%d.%d:%s", m.GetId(), Key(m.GetStartKey()), Key(m.GetEndKey()),
		m.GetRegionEpoch().GetVersion(), m.GetRegionEpoch().GetConfVer(), pl)
}

// IDs renders a list of regions as their ids ("-" = empty, "nil" for a nil entry).
func IDs(rs []*core.RegionInfo) string {
	if len(rs) == 0 {
		return "-"
	}
	var l []string
	for _, r := range rs {
		if r == nil {
			l = append(l, "nil")
		} else {
			l = append(l, strconv.FormatUint(r.GetID(), 10))
		}
	}
	return strings.Join(l, ",")
}

// U64s renders ids.
func U64s(ids []uint64) string {
	if len(ids) == 0 {
		return "-"
	}
	var l []string
	for _, x := range ids {
		l = append(l, strconv.FormatUint(x, 10))
	}
	return strings.Join(l, ",")
}

// SortedStores returns the keys of a per-store map in ascending order.
func SortedStores(m map[uint64][]uint64) []uint64 {
	var ks []uint64
	for k := range m {
		ks = append(ks, k)
	}
	sort.Slice(ks, func(i, j int) bool { return ks[i] < ks[j] })
	return ks
}
