// Package trace writes the `<op> => <observation>` lines shared with the Lean driver and
// reads op files back for replay.
package trace

import (
	"bufio"
	"fmt"
	"os"
	"strings"
)

// W writes a trace file.
type W struct {
	f *os.File
	w *bufio.Writer
	N int
}

// Create opens path for writing ("-" = stdout).
func Create(path string) *W {
	if path == "-" || path == "" {
		return &W{f: os.Stdout, w: bufio.NewWriter(os.Stdout)}
	}
	f, err := os.Create(path)
	if err != nil {
		panic(err)
	}
	return &W{f: f, w: bufio.NewWriter(f)}
}

// Line records one op and the implementation's observation.
func (t *W) Line(op string, obs string) {
	fmt.Fprintf(t.w, "%s => %s\n", op, obs)
	t.N++
}

// Comment writes a `# ...` line (ignored by the driver).
func (t *W) Comment(s string) { fmt.Fprintf(t.w, "# %s\n", s) }

// Close flushes.
func (t *W) Close() {
	t.w.Flush()
	if t.f != os.Stdout {
		t.f.Close()
	}
}

// ReadOps reads the op part of every line of a trace/ops file.
func ReadOps(path string) []string {
	b, err := os.ReadFile(path)
	if err != nil {
		panic(err)
	}
	var ops []string
	for _, l := range strings.Split(string(b), "\n") {
		l = strings.TrimRight(l, "\r")
		if l == "" || strings.HasPrefix(l, "#") {
			continue
		}
		if i := strings.Index(l, " => "); i >= 0 {
			l = l[:i]
		}
		ops = append(ops, l)
	}
	return ops
}
