// Package quiet silences pd's global logger (import for side effect).
package quiet

import (
	"github.com/pingcap/log"
	"go.uber.org/zap"
)

func init() {
	log.ReplaceGlobals(zap.NewNop(), &log.ZapProperties{})
}
