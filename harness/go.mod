module verifharness

go 1.16
