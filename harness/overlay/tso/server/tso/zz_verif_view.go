package tso

import (
	"github.com/tikv/pd/pkg/typeutil"
	"github.com/tikv/pd/server/election"
)

// VerifView exposes (physical ns, logical, last saved ns) of an allocator's oracle; 0 stands for the
// zero time / "never saved".  Read-only; verification builds only (added through -overlay).
func VerifView(a Allocator) (physNs int64, logical int64, lastSavedNs int64) {
	var t *timestampOracle
	switch x := a.(type) {
	case *GlobalTSOAllocator:
		t = x.timestampOracle
	case *LocalTSOAllocator:
		t = x.timestampOracle
	default:
		return -1, -1, -1
	}
	t.tsoMux.RLock()
	if t.tsoMux.physical != typeutil.ZeroTime {
		physNs = t.tsoMux.physical.UnixNano()
	}
	logical = t.tsoMux.logical
	t.tsoMux.RUnlock()
	if v := t.lastSavedTime.Load(); v != nil {
		lastSavedNs = v.(interface{ UnixNano() int64 }).UnixNano()
	}
	return
}

// VerifDifferentiate calls the unexported differentiateLogical with the given suffix.
func VerifDifferentiate(raw int64, suffixBits int, suffix int) int64 {
	t := &timestampOracle{suffix: suffix}
	return t.differentiateLogical(raw, suffixBits)
}

// VerifMaxSuffix exposes the allocator manager's cached max suffix.
func (am *AllocatorManager) VerifMaxSuffix() int32 {
	am.mu.RLock()
	defer am.mu.RUnlock()
	return am.mu.maxSuffix
}

// VerifSetMaxSuffix raises the manager's cached max suffix (what setting up dc-locations does).
func (am *AllocatorManager) VerifSetMaxSuffix(s int32) {
	am.compareAndSetMaxSuffix(s)
}

// VerifResetUserTimestamp calls resetUserTimestamp of the allocator's oracle (ignoreSmaller = true is the
// MaxTS path of WriteTSO / the global synchronisation).
func VerifResetUserTimestamp(a Allocator, ls *election.Leadership, tso uint64, ignoreSmaller bool) error {
	switch x := a.(type) {
	case *GlobalTSOAllocator:
		return x.timestampOracle.resetUserTimestamp(ls, tso, ignoreSmaller)
	case *LocalTSOAllocator:
		return x.timestampOracle.resetUserTimestamp(ls, tso, ignoreSmaller)
	}
	return nil
}
