package election

import "time"

// VerifExpireLocal makes this leadership's local lease check fail from now on, as if the local
// clock had passed the lease's expiry, without revoking the etcd lease (the leader record stays).
// Fault injection for verification builds only (added through -overlay).
func (ls *Leadership) VerifExpireLocal() {
	if l := ls.getLease(); l != nil {
		l.expireTime.Store(time.Time{})
	}
}
