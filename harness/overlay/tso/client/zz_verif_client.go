package pd

import "context"

// VerifSplitBatch runs the client's own batch distribution (finishTSORequest, which uses addLogical)
// for a response (physical, logical = highest value, suffixBits) shared by `count` requests and returns
// the logical part each request receives, in request order.  Verification builds only (-overlay).
func VerifSplitBatch(physical, logical int64, suffixBits uint32, count int) (physicals []int64, logicals []int64) {
	c := &client{}
	reqs := make([]*tsoRequest, count)
	for i := range reqs {
		reqs[i] = &tsoRequest{done: make(chan error, 1), requestCtx: context.Background(), clientCtx: context.Background()}
	}
	firstLogical := addLogical(logical, -int64(count)+1, suffixBits)
	c.finishTSORequest(reqs, physical, firstLogical, suffixBits, nil)
	for _, r := range reqs {
		<-r.done
		physicals = append(physicals, r.physical)
		logicals = append(logicals, r.logical)
	}
	return
}

// VerifTSLessEqual exports tsLessEqual (the client's fallback detector).
func VerifTSLessEqual(physical, logical, thatPhysical, thatLogical int64) bool {
	return tsLessEqual(physical, logical, thatPhysical, thatLogical)
}
